# Harness-owned streams: prescribed delivery schedules and injected faults.
from __future__ import annotations

import io
import os


class PiecewiseText(object):
    """Text stream that delivers `pieces` one read at a time and honours read(n)
    (a read never crosses a piece boundary; read(1) look-ahead works)."""

    def __init__(self, pieces):
        self.pieces = [p for p in pieces if p != '']
        self.i = 0
        self.pos = 0
        self.reads = 0

    def read(self, n=-1):
        self.reads += 1
        if self.i >= len(self.pieces):
            return ''
        p = self.pieces[self.i]
        if n is None or n < 0:
            out = p[self.pos:] + ''.join(self.pieces[self.i + 1:])
            self.i = len(self.pieces)
            self.pos = 0
            return out
        out = p[self.pos:self.pos + n]
        self.pos += len(out)
        if self.pos >= len(p):
            self.i += 1
            self.pos = 0
        return out

    def close(self):
        pass


class PiecewiseRaw(io.RawIOBase):
    """Raw byte stream delivering prescribed pieces (short reads), for TextIOWrapper."""

    def __init__(self, pieces):
        io.RawIOBase.__init__(self)
        self.pieces = [bytes(p) for p in pieces if len(p)]
        self.i = 0
        self.pos = 0

    def readable(self):
        return True

    def readinto(self, b):
        if self.i >= len(self.pieces):
            return 0
        p = self.pieces[self.i]
        n = min(len(b), len(p) - self.pos)
        b[:n] = p[self.pos:self.pos + n]
        self.pos += n
        if self.pos >= len(p):
            self.i += 1
            self.pos = 0
        return n


def partition(seq, mask):
    """Cut `seq` after position i (0-based) for every set bit i of mask."""
    out = []
    start = 0
    n = len(seq)
    for i in range(n - 1):
        if mask >> i & 1:
            out.append(seq[start:i + 1])
            start = i + 1
    out.append(seq[start:])
    return out


def cut_positions(mask, n):
    return [i + 1 for i in range(n - 1) if mask >> i & 1]


class BrokenPipeAfter(object):
    """Text stream whose k-th write (1-based) and every later one raise BrokenPipeError."""

    def __init__(self, k):
        self.k = k
        self.nwrites = 0
        self.accepted = []
        self.failed_writes = 0
        self.writes_after_failure = 0
        self.closed = False

    def write(self, s):
        self.nwrites += 1
        if self.k is not None and self.nwrites >= self.k:
            if self.failed_writes:
                self.writes_after_failure += 1
            self.failed_writes += 1
            raise BrokenPipeError(32, 'Broken pipe')
        self.accepted.append(s)
        return len(s)

    def flush(self):
        if self.failed_writes:
            raise BrokenPipeError(32, 'Broken pipe')

    def close(self):
        self.closed = True

    def text(self):
        return ''.join(self.accepted)


class BrokenPipeRaw(io.RawIOBase):
    """Raw byte sink that accepts `limit` bytes and then raises BrokenPipeError (the error
    surfaces when TextIOWrapper flushes)."""

    def __init__(self, limit):
        io.RawIOBase.__init__(self)
        self.limit = limit
        self.data = bytearray()
        self.failed = 0
        self.accepted_after_failure = 0

    def writable(self):
        return True

    def write(self, b):
        b = bytes(b)
        if self.failed:
            self.failed += 1
            raise BrokenPipeError(32, 'Broken pipe')
        room = self.limit - len(self.data)
        if len(b) > room:
            self.data += b[:max(room, 0)]
            self.failed += 1
            raise BrokenPipeError(32, 'Broken pipe')
        self.data += b
        return len(b)


def fd_snapshot():
    out = {}
    for name in os.listdir('/proc/self/fd'):
        try:
            out[int(name)] = os.readlink('/proc/self/fd/' + name)
        except OSError:
            pass
    return out
