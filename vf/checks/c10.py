# C10 - CSV written by RBQL reads back as the identical table, in every dialect.
from __future__ import annotations

import io
import itertools
import os

from hypothesis import strategies as st

from ..common import Stats, run_hypothesis, Violation
from .. import refcsv, engine

from rbql import rbql_csv  # noqa: E402

PROP = 'C10'
LEVEL = 'exploration'
RULE = ('Exhaustive: every one- and two-field single-record table whose fields are strings of length <= 4 (quick) / <= 5 (thorough) (two-field tables: each field one shorter) over '
        '{quote, delimiter characters, space, a} (+ LF for quoted_rfc) for delimiters , ; TAB | space :: ### ab <> and policies quoted / quoted_rfc; one- to three-field records over {a, delimiter characters} for policy simple with the multi-character delimiters :: ### ab <> ", " := . '
        'Hypothesis: tables of 0-5 records x 1-4 fields over {quote, delimiter chars, space, tab, CR, LF, ordinary, non-ASCII, all 256 latin-1 code points} '
        'x 5 policies x 12 delimiters x line separators {LF, CRLF, CR} x encodings {None, utf-8, latin-1}, plus query_csv("select *") file to file. '
        'Oracle: representable := the reference writer/reader pair round-trips the table; for representable tables real writer -> real reader == table '
        'with no warnings (ragged: exactly the field-count warning), real writer -> reference reader and reference writer (minimal and always-quoting) -> '
        'real reader == table; quoted_rfc normalises CR/CRLF in fields to LF. For simple/whitespace output with the delimiter inside a field, or any None: '
        'the corresponding warning must be present. Non-trivial = a field containing a quote, a delimiter character, a leading/trailing space or a line break.'
        ' Later additions: simple-policy enumeration over delimiter characters for multi-character delimiters (incl. TAB spelled as text), all 256 latin-1 code points, first line through set_header(), word cells (None, nan, null, ...), fields with up to 16000 line breaks, 140 kB fields, 3000-field records, zero-field records under the whitespace policy.')
ASSUMPTIONS = ['multi-character delimiters of the quoted policies contain neither a space nor a double quote', 'the delimiter is never the double quote; whitespace policy uses the space delimiter']

SINGLE = [',', ';', '\t', '|', ' ']
MULTI = ['::', '###', 'ab', '<>']
# multi-character delimiters that look like the command line's spellings of a tab: for the library they are ordinary text
TABLIKE = ['TAB', '\\t']
NONASCII = ['§', '→', '§§']


def plan(tier):
    return {'stages': [('shard_enum', 10), ('shard_random', 6)], 'timeout_s': 3000}


def bom_for(encoding):
    return {'utf-8': '\ufeff', 'latin-1': '\xef\xbb\xbf'}.get(encoding)


def real_write(table, dlm, policy, line_sep, encoding):
    """Returns (payload, writer_warnings, error). payload: str (encoding None) or bytes."""
    sink = io.StringIO(newline='') if encoding is None else io.BytesIO()
    try:
        w = rbql_csv.CSVWriter(sink, False, encoding, dlm, policy, line_sep)
        # the first line of a rectangular table goes through set_header() half of the time (that is how every query over a table with a
        # header writes its first output line); a header line is a line like any other
        via_header = bool(table) and len(set(len(r) for r in table)) == 1 and all(c is not None for c in table[0]) and (len(table) + len(table[0][0] if table[0] else '')) % 2 == 1
        for i, rec in enumerate(table):
            if i == 0 and via_header:
                w.set_header(list(rec))
            else:
                w.write(list(rec))
        w.finish()
        payload = sink.getvalue()
        return payload, w.get_warnings(), None
    except Exception as e:
        return None, None, engine.err_info(e)


def real_read(payload, dlm, policy, encoding):
    src = io.StringIO(payload, newline='') if encoding is None else io.BytesIO(payload)
    try:
        it = rbql_csv.CSVRecordIterator(src, encoding, dlm, policy)
        recs = it.get_all_records()
        return recs, it.get_warnings(), None
    except Exception as e:
        return None, None, engine.err_info(e)


def decode(payload, encoding):
    return payload if encoding is None else payload.decode(encoding)


def encode(text, encoding):
    return text if encoding is None else text.encode(encoding)


def check_table(table, dlm, policy, line_sep, encoding, stats=None, distinct=False):
    cfg = {'table': table, 'delim': dlm, 'policy': policy, 'line_sep': line_sep, 'encoding': encoding}
    has_none = any(c is None for r in table for c in r)
    payload, wwarn, werr = real_write(table, dlm, policy, line_sep, encoding)
    # lossy output is never silent
    if werr is None:
        if has_none and 'None values in output were replaced by empty strings' not in wwarn:
            raise Violation('none-not-warned', dict(cfg, warnings=wwarn))
        if policy in ('simple', 'whitespace') and any(c is not None and refcsv.find_from(c, dlm, 0) != -1 for r in table for c in r):
            if 'Some output fields contain separator' not in wwarn:
                raise Violation('delimiter-in-simple-field-not-warned', dict(cfg, warnings=wwarn))
    bom = bom_for(encoding)
    starts_with_bom = bool(table) and bool(table[0]) and table[0][0] is not None and bom is not None and table[0][0].startswith(bom)
    rep = (not has_none) and (not starts_with_bom) and refcsv.representable(table, dlm, policy, line_sep)
    if stats is not None:
        flat = [c for r in table for c in r if c is not None]
        nt = any(('"' in c or any(ch in c for ch in dlm) or c[:1] == ' ' or c[-1:] == ' ' or '\n' in c or '\r' in c) for c in flat)
        cl = ['policy-' + policy, 'enc-%s' % encoding, 'sep-' + repr(line_sep), 'representable' if rep else 'not-representable']
        if len(dlm) > 1:
            cl.append('multichar-delim')
        stats.case(cfg, nt and rep, cl, sample=cfg, distinct_by_construction=distinct)
    if not rep:
        return
    if werr is not None:
        raise Violation('writer-error', dict(cfg, error=werr))
    if wwarn:
        raise Violation('writer-warning-on-representable', dict(cfg, warnings=wwarn))
    want = refcsv.normalise_rfc(table, policy)
    ragged = len(set(len(r) for r in table)) > 1
    recs, rwarn, rerr = real_read(payload, dlm, policy, encoding)
    if rerr is not None:
        raise Violation('reader-error', dict(cfg, error=rerr, payload=repr(payload)))
    if recs != want:
        raise Violation('round-trip', dict(cfg, got=recs, payload=repr(payload)))
    if ragged:
        if len(rwarn) != 1 or 'Number of fields in "input" table is not consistent' not in rwarn[0]:
            raise Violation('ragged-warning', dict(cfg, warnings=rwarn))
    elif rwarn:
        raise Violation('reader-warning-on-representable', dict(cfg, warnings=rwarn, payload=repr(payload)))
    # real writer -> reference reader
    text = decode(payload, encoding)
    res = refcsv.read_table(text, dlm, policy)
    if res['error'] is not None or res['records'] != want or res['defective_line'] is not None:
        raise Violation('real-writer-vs-reference-reader', dict(cfg, payload=repr(payload), reference=res['records']))
    # reference writer -> real reader
    for always in (False, True):
        if always and policy not in ('quoted', 'quoted_rfc'):
            continue
        rtext = refcsv.write_table(table, dlm, policy, line_sep, always_quote=always)
        recs2, rwarn2, rerr2 = real_read(encode(rtext, encoding), dlm, policy, encoding)
        if rerr2 is not None or recs2 != want or (rwarn2 and not ragged):
            raise Violation('reference-writer-vs-real-reader', dict(cfg, always_quote=always, text=rtext, got=recs2, warnings=rwarn2, error=rerr2))
    if not always_eq(payload, refcsv.write_table(table, dlm, policy, line_sep), encoding):
        # not required by the property (any dialect-conforming text is fine) - recorded only
        if stats is not None:
            stats.bump('real-writer-text-differs-from-minimal-reference-text')


def always_eq(payload, text, encoding):
    return decode(payload, encoding) == text


def shard_enum(shard, nshards, tier, seed, scratch):
    stats = Stats()
    failures, seen = [], set()
    maxlen = 4 if tier == 'quick' else 5
    counter = 0
    for dlm in SINGLE[:4] + [' '] + MULTI + TABLIKE[1:]:
        for policy in ('quoted', 'quoted_rfc'):
            alpha = ['"', ' ', 'a'] + sorted(set(dlm) - {' '}) + (['\n'] if policy == 'quoted_rfc' else [])
            strings = [''.join(t) for n in range(0, maxlen + 1) for t in itertools.product(alpha, repeat=n)]
            pair_strings = [s for s in strings if len(s) <= maxlen - 1]
            tables = [[[s]] for s in strings] + [[[s, t]] for s in pair_strings for t in pair_strings]
            for table in tables:
                counter += 1
                if counter % nshards != shard:
                    continue
                try:
                    check_table(table, dlm, policy, '\n', None, stats, distinct=True)
                except Violation as v:
                    key = (policy, len(dlm) > 1, v.clause)
                    if key not in seen:
                        seen.add(key)
                        failures.append({'leg': 'enum', 'clause': v.clause, 'detail': v.detail, 'case': {'table': table, 'delim': dlm, 'policy': policy, 'line_sep': '\n', 'encoding': None}})
    # simple policy with multi-character delimiters: only the whole delimiter inside a field is lossy; fields made of
    # delimiter characters (a field ending with the head of the delimiter next to one starting with its tail) are fine
    for dlm in MULTI + [', ', ':='] + TABLIKE:
        alpha = ['a'] + sorted(set(dlm))
        strings = [''.join(t) for n in range(0, maxlen) for t in itertools.product(alpha, repeat=n)]
        short = [x for x in strings if len(x) <= 2]
        tables = [[[x]] for x in strings] + [[[x, t]] for x in strings for t in strings if len(x) + len(t) <= maxlen + 1] + [[[x, t, u]] for x in short for t in short for u in short]
        for table in tables:
            counter += 1
            if counter % nshards != shard:
                continue
            try:
                check_table(table, dlm, 'simple', '\n', None, stats, distinct=True)
            except Violation as v:
                key = ('simple', True, v.clause)
                if key not in seen:
                    seen.add(key)
                    failures.append({'leg': 'enum', 'clause': v.clause, 'detail': v.detail, 'case': {'table': table, 'delim': dlm, 'policy': 'simple', 'line_sep': '\n', 'encoding': None}})
    if shard == 0:
        # latin-1 preserves every byte value: all 256 code points, as single-character fields and in one run per record
        allcp = [chr(i) for i in range(256)]
        for policy, dlm in (('quoted_rfc', ','), ('quoted_rfc', '::'), ('quoted', ';'), ('simple', '\t'), ('monocolumn', '')):
            banned = {'quoted_rfc': '', 'quoted': '\r\n', 'simple': '\r\n' + dlm, 'monocolumn': '\r\n'}[policy]
            cps = [c for c in allcp if c not in banned]
            tables = [[[c] for c in cps]] if policy == 'monocolumn' else [[[c, 'x' + c + 'y'] for c in cps], [[''.join(cps[i:i + 16]) for i in range(0, len(cps), 16)]]]
            for table in tables:
                if table and table[0] and table[0][0].startswith('\xef\xbb\xbf'):
                    continue
                for sep in ('\n', '\r\n'):
                    try:
                        check_table(table, dlm, policy, sep, 'latin-1', None)
                        stats.evaluations += 1
                        stats.nontrivial_counted += 1
                    except Violation as v:
                        key = ('latin1-all', policy, v.clause)
                        if key not in seen:
                            seen.add(key)
                            d = dict(v.detail)
                            for k in ('table', 'got', 'payload'):
                                d[k] = repr(d.get(k))[:300]
                            failures.append({'leg': 'latin1-all-bytes', 'clause': v.clause, 'detail': d, 'case': {'table': table, 'delim': dlm, 'policy': policy, 'line_sep': sep, 'encoding': 'latin-1'}})
        stats.bump('latin-1-all-256-code-points')
    stats.samples = stats.samples[:3]
    return {'stats': stats.export(), 'failures': failures, 'extra': {'exhaustive': True}}


@st.composite
def st_case(draw):
    encoding = draw(st.sampled_from([None, 'utf-8', 'latin-1']))
    policy = draw(st.sampled_from(['simple', 'quoted', 'quoted_rfc', 'whitespace', 'monocolumn']))
    delims = SINGLE + MULTI + TABLIKE + (NONASCII if encoding != 'latin-1' else [])   # the front-end rejects non-ASCII separators with latin-1 by design
    dlm = draw(st.sampled_from(delims))
    if policy == 'whitespace':
        dlm = ' '
    if policy == 'monocolumn':
        dlm = ''
    maxcp = 0xFF if encoding == 'latin-1' else None
    ordinary = st.characters(blacklist_categories=('Cs',), max_codepoint=maxcp) if maxcp else st.characters(blacklist_categories=('Cs',))
    special = st.sampled_from(['"', ' ', '\t', '\r', '\n', '\r\n', '""', 'a', 'é', 'ÿ', '\xa0'] + [c for c in dlm] + ([dlm] if dlm else []))
    intent_representable = draw(st.integers(0, 2)) != 0
    if intent_representable:
        # constructed to be representable in the chosen dialect (the oracle still decides with the reference pair)
        banned = {'quoted': '\r\n', 'quoted_rfc': '', 'simple': '\r\n' + dlm, 'whitespace': '\r\n ', 'monocolumn': '\r\n'}[policy]
        pool = [x for x in ['"', ' ', '\t', '\r', '\n', '\r\n', '""', 'a', 'é', 'ÿ', '\xa0', ' "', '" ', 'b c', '\xef\xbb\xbf', '\n\xef\xbb\xbf', '\x0b', '\x1c', '\x85'] + ([] if encoding == 'latin-1' else ['\ufeff', '\n\ufeff', '\u2003']) + [c for c in dlm] + ([dlm] if dlm else []) if not any(ch in banned for ch in x)]
        piece = st.one_of(st.sampled_from(pool), st.sampled_from(pool), ordinary.filter(lambda c: c not in banned), st.sampled_from(['a', 'b', 'xy', '1']))
    else:
        piece = st.one_of(special, special, ordinary, st.sampled_from(['a', 'b', 'xy']))
    field = st.lists(piece, min_size=(1 if (intent_representable and policy == 'whitespace') else 0), max_size=4).map(''.join)
    if not intent_representable and draw(st.integers(0, 4)) == 0:
        field = st.one_of(field, st.none())
    nrows = draw(st.integers(0, 5))
    width = draw(st.integers(1, 4))
    ragged = draw(st.integers(0, 5)) == 0
    table = []
    for _ in range(nrows):
        w = draw(st.integers(0 if policy == 'whitespace' else 1, 4)) if ragged else width    # whitespace: a blank line is a record without fields
        if policy == 'monocolumn' and draw(st.integers(0, 5)):
            w = 1
        table.append(draw(st.lists(field, min_size=w, max_size=w)))
    return {'table': table, 'delim': dlm, 'policy': policy, 'line_sep': draw(st.sampled_from(['\n', '\r\n', '\r'])), 'encoding': encoding,
            'via_query_csv': draw(st.integers(0, 7)) == 0}


def check_case(case, stats=None, scratch=None):
    table, dlm, policy, enc = case['table'], case['delim'], case['policy'], case['encoding']
    check_table(table, dlm, policy, case['line_sep'], enc, stats)
    if case.get('via_query_csv') and scratch is not None and enc is not None and dlm != '"' and table:
        has_none = any(c is None for r in table for c in r)
        bom = bom_for(enc)
        if has_none or (table[0] and table[0][0].startswith(bom)) or not refcsv.representable(table, dlm, policy, '\n'):
            return
        if len(set(len(r) for r in table)) > 1:
            return
        src, dst = os.path.join(scratch, 'c10_in'), os.path.join(scratch, 'c10_out')
        with open(src, 'wb') as f:
            f.write(refcsv.write_table(table, dlm, policy, case['line_sep']).encode(enc))
        warnings = []
        try:
            engine.rbql.query_csv('select *', src, dlm, policy, dst, dlm, policy, enc, warnings, False)
        except Exception as e:
            raise Violation('query_csv-error', dict(case, error=engine.err_info(e)))
        with open(dst, 'rb') as f:
            data = f.read()
        recs, rwarn, rerr = real_read(data, dlm, policy, enc)
        if stats is not None:
            stats.bump('via-query_csv')
        if rerr is not None or recs != refcsv.normalise_rfc(table, policy) or warnings or rwarn:
            raise Violation('query_csv-round-trip', dict(case, got=recs, warnings=warnings + (rwarn or []), error=rerr, output=repr(data)))


def shard_random(shard, nshards, tier, seed, scratch):
    total = 9000 if tier == 'quick' else 300000
    stats = Stats()
    # a few large tables (buffer boundaries of the writer / reader: 1024 lines, 8 KiB decode blocks)
    big_failures = []
    for n in ([1023, 1025, 3000] if shard == 0 else [2048 + shard, 700 * (shard + 1)]):
        table = [['id%d' % i, ['plain', 'with,comma', 'q"uote', ' lead', 'é€', ''][i % 6], 'x' * (i % 37)] for i in range(n)]
        for dlm, policy, enc in ((',', 'quoted', 'utf-8'), ('\t', 'simple', None), ('::', 'quoted_rfc', 'latin-1')):
            t2 = table if policy != 'simple' else [[c.replace('\t', ' ') for c in r] for r in table]
            if enc == 'latin-1':
                t2 = [[c.replace('€', 'E') for c in r] for r in t2]
            try:
                check_table(t2, dlm, policy, '\r\n' if n % 2 else '\n', enc, None)
                stats.bump('large-table-%s' % policy)
                stats.evaluations += 1
            except Violation as v:
                d = dict(v.detail)
                d['table'] = 'large table of %d records (omitted)' % n
                d.pop('got', None)
                d.pop('payload', None)
                big_failures.append({'leg': 'large', 'clause': 'large-' + v.clause, 'detail': d, 'case': {'table': t2[:3], 'delim': dlm, 'policy': policy, 'line_sep': '\n', 'encoding': enc, 'note': 'first 3 of %d records' % n}})
                break
    # cells that spell a "missing value" or a keyword of some host language: for CSV they are ordinary text
    if not big_failures and shard == 1:
        words = ['None', 'nan', 'NaN', 'NaT', '<NA>', 'null', 'NULL', 'undefined', 'True', 'False', 'true', 'false', '0', '-0', '0.0', 'inf', '-inf', 'N/A', '#N/A', 'nil', '[]', '{}', "''", '\\N', '1e5', '0x1f', ' None', 'None ']
        table = [[w, 'x' + w, w] for w in words] + [words[:3], ['None', 'None', 'None']]
        for policy, dlm in (('quoted', ','), ('quoted_rfc', ';'), ('simple', '\t'), ('quoted', '::'), ('monocolumn', ''), ('whitespace', ' ')):
            t2 = table if policy != 'monocolumn' else [[w] for w in words]
            if policy == 'whitespace':
                t2 = [[c.strip(' ') for c in r] for r in table]
            for enc in (None, 'utf-8', 'latin-1'):
                try:
                    check_table(t2, dlm, policy, '\n', enc, None)
                    stats.evaluations += 1
                    stats.nontrivial_counted += 1
                except Violation as v:
                    d = {k: v.detail.get(k) for k in ('delim', 'policy', 'encoding', 'warnings', 'error')}
                    d['got'] = repr(v.detail.get('got'))[:300]
                    big_failures.append({'leg': 'words', 'clause': 'word-cells-' + v.clause, 'detail': d, 'case': {'table': t2, 'delim': dlm, 'policy': policy, 'line_sep': '\n', 'encoding': enc}})
                    break
            if big_failures:
                break
        stats.bump('word-cells')
    # fields with very many line breaks (one quoted_rfc record spanning thousands of physical lines), very long fields and very wide records
    if not big_failures:
        n_breaks = [999, 1000, 1001, 1500][shard % 4] if tier == 'quick' else 1000 + 997 * (shard + 1)
        shapes = [('many-breaks-LF', [['id', '\n'.join('l%d' % i for i in range(n_breaks + 1)), 'x'], ['a', 'b', 'c']]),
                  ('many-breaks-with-quotes', [['"', '\n'.join('"q%d",' % i for i in range(n_breaks + 1)), ''], ['a', 'b', 'c']]),
                  ('long-field', [['x' * 70000 + '"' + 'y' * 70000, 'b'], ['c', 'd']]),
                  ('wide-record', [['f%d' % i for i in range(3000)], ['"'] * 3000])]
        for name, table in shapes:
            for sep in ('\n', '\r\n'):
                for enc in ((None, 'utf-8') if shard % 2 else ('utf-8', 'latin-1')):
                    try:
                        check_table(table, ',' if name != 'wide-record' else '::', 'quoted_rfc', sep, enc, None)
                        stats.bump('large-shape-' + name)
                        stats.evaluations += 1
                        stats.nontrivial_counted += 1
                    except Violation as v:
                        d = {k: v.detail.get(k) for k in ('delim', 'policy', 'line_sep', 'encoding', 'warnings', 'error')}
                        d['shape'] = name
                        d['line_breaks_in_field'] = n_breaks if 'breaks' in name else 0
                        big_failures.append({'leg': 'large', 'clause': 'large-' + v.clause, 'detail': d, 'case': {'kind': 'large-shape', 'name': name, 'n_breaks': n_breaks, 'line_sep': sep, 'encoding': enc}})
                        break
                if big_failures:
                    break
            if big_failures:
                break
    if big_failures:
        return {'stats': stats.export(), 'failures': big_failures[:1]}
    fails = run_hypothesis(st_case(), lambda c: check_case(c, stats, scratch), max(1, total // nshards), seed, shrink_budget=300 if tier == 'quick' else 2000)
    for f in fails:
        f['leg'] = 'random'
    return {'stats': stats.export(), 'failures': fails}


def replay(case, clause=None):
    if case.get('kind') == 'large-shape':
        nb = case['n_breaks']
        table = {'many-breaks-LF': [['id', '\n'.join('l%d' % i for i in range(nb + 1)), 'x'], ['a', 'b', 'c']],
                 'many-breaks-with-quotes': [['"', '\n'.join('"q%d",' % i for i in range(nb + 1)), ''], ['a', 'b', 'c']],
                 'long-field': [['x' * 70000 + '"' + 'y' * 70000, 'b'], ['c', 'd']],
                 'wide-record': [['f%d' % i for i in range(3000)], ['"'] * 3000]}[case['name']]
        check_table(table, ',' if case['name'] != 'wide-record' else '::', 'quoted_rfc', case['line_sep'], case['encoding'], None)
        return
    import tempfile, shutil
    d = tempfile.mkdtemp(prefix='vf_c10_')
    try:
        check_case(dict(case, via_query_csv=True), None, d)
    finally:
        shutil.rmtree(d, ignore_errors=True)


def probe_known(k):
    return False
