# C06 - No query ever modifies its sources (RBQL is non-destructive).
from __future__ import annotations

import copy
import hashlib
import os
import re
import sqlite3
import subprocess
import sys

from hypothesis import strategies as st

from ..common import Stats, run_hypothesis, Violation, REPO
from .. import engine, qgen, refcsv, jsdriver
from . import c01, c02, c03, c04, c05, c14, c19

from rbql import rbql_sqlite, rbql_engine  # noqa: E402

PROP = 'C06'
LEVEL = 'exploration'
RULE = ('Hypothesis-generated queries of the C01-C05 generators (select / where / star / except / unnest, order / distinct / top, aggregates, joins, updates) plus '
        'failing ones (poisoned record at position k, text-level mistakes), run against each source kind: Python lists (deep snapshot equality of input and join '
        'tables + identity check of every output record against every source row), rbql-js arrays (the node driver returns the arrays as they are after the call), '
        'pandas dataframes (copy(deep=True) then equals + dtypes + index + columns), a sqlite file (sha256 of the file, no -journal/-wal side file, every SQL string '
        'handed to the connection recorded by a proxy and matched against ^SELECT \\* FROM [A-Za-z0-9_]+;$), CSV input and join files (sha256 + mtime_ns, for '
        'query_csv and the CLI). Hostile join-table / input-table identifiers for sqlite come from a grammar of SQL metacharacters. '
        'Non-trivial = an UPDATE that changes at least one field, or a failing query, or a hostile identifier; distinct = case digests.'
        " Later additions: tuple records, mutable (list / dict) cells under every aggregate, WITH (...) modifiers, dataframes with named / permuted / string indexes, a caller's open sqlite transaction, an output destination that is the sources' directory.")
ASSUMPTIONS = ['table identifiers taken from the query text cannot contain spaces or line breaks (the query parser splits on them)']


def plan(tier):
    return {'stages': [('shard_lists', 6), ('shard_js', 3), ('shard_pandas', 2), ('shard_sqlite', 2), ('shard_csv', 3)], 'timeout_s': 3000}


MUTABLE_QUERIES = ['select a1, SUM(a2) group by a1', 'select SUM(a2)', 'select MIN(a2), MAX(a2)', 'select a1, ARRAY_AGG(a2) group by a1', 'select ANY_VALUE(a2), COUNT(*)', 'select MEDIAN(a2)', 'select AVG(a2)',
                   'select a2 + a2, a1', 'select a1, UNNEST(a2)', 'update a2 = a2', 'update a2 = a2 + a2 where NR == 1', 'select * order by a1 desc', 'select distinct a1, str(a2)', 'select a1, b2 join b on a1 == b1',
                   'select a1, SUM(b2) join b on a1 == b1 group by a1', 'update a2 = b2 join b on a1 == b1', 'select a1, a2 where a2', 'select top 1 a2', 'select a1, VARIANCE(a2) group by a1',
                   'select a1, MAX(a2), MIN(a2) group by a1', 'select distinct count a1', 'select a.*, b.* left join b on a1 == b1']


@st.composite
def st_mutable_cells(draw):
    """Tables whose cells are mutable objects (lists, dicts): an aggregate or expression that works in place would edit the caller's cell."""
    cell = st.sampled_from([[1], [1, 2], ['a'], [], [[0]], {'k': 1}, [2, 3, 4]])
    key = st.sampled_from(['x', 'y'])
    A = [[draw(key), copy.deepcopy(draw(cell))] for _ in range(draw(st.integers(1, 5)))]
    B = [[draw(key), copy.deepcopy(draw(cell))] for _ in range(draw(st.integers(0, 3)))]
    q = draw(st.sampled_from(MUTABLE_QUERIES))
    return {'A': A, 'B': B if ' join ' in q else None, 'a_names': None, 'b_names': None, 'query': q}


def list_strategy():
    return st.one_of(st_mutable_cells(), qgen.st_case_select(join_p=0, except_p=1, distinct=True, top=True, order=True), c01.strategy(), c02.strategy(), c03.st_case(), c04.strategy(), c05.strategy(), c05.strategy(), c14.st_poison(), c14.st_mistake())


def with_modifier(text):
    """Now and then the query carries a WITH (...) modifier (a function of the text, so that replay is exact)."""
    k = len(text) % 9
    if k < 3 and '#' not in text and '//' not in text:
        return text.rstrip().rstrip(';') + [' WITH (header)', ' with (noheader)', ' WITH (headers)'][k]
    return text


def check_lists(case, stats=None):
    if 'q' in case:
        text = qgen.render(case['q'])
        a_names, b_names = case.get('a_names'), case.get('b_names')
        is_update = case['q']['type'] == 'update'
    else:
        text = case['query']
        a_names, b_names = case.get('a_names'), case.get('b_names')
        is_update = text.lower().startswith('update')
    text = with_modifier(text)
    A0, B0 = case['A'], case.get('B')
    if len(text) % 4 == 3:
        # records given as tuples (a list of tuples is an ordinary Python table; whether the query succeeds is irrelevant here)
        A0 = [tuple(r) for r in A0]
        B0 = [tuple(r) for r in B0] if B0 is not None else None
    if len(text) % 5 == 2:
        # the first cell of a list table starts with U+FEFF (rows split by the caller from a file with a BOM): for list tables it is data
        A0, B0 = copy.deepcopy(A0), copy.deepcopy(B0)
        for T in (A0, B0):
            if T and T[0] and isinstance(T[0][0], str) and not isinstance(T[0], tuple):
                T[0][0] = '\ufeff' + T[0][0]
    A, B = copy.deepcopy(A0), copy.deepcopy(B0)
    rowsA = list(A)
    rowsB = list(B) if B is not None else []
    via = 'objects' if len(text) % 2 else 'table'
    if via == 'table':
        r = engine.run_table(text, A, B, a_names, b_names)
    else:
        r = engine.run_query_objects(text, A, B, a_names, b_names)
    if stats is not None:
        changed = is_update and r['error'] is None and r['out'] != A0
        cl = ['lists', 'lists-update' if is_update else 'lists-select'] + (['lists-tuple-records'] if (A0 and isinstance(A0[0], tuple)) else []) + (['lists-with-modifier'] if text.lower().rstrip().endswith(')') and ' with (' in text.lower() else [])
        if r['error'] is not None:
            cl.append('lists-failing-' + r['error']['cls'])
        stats.case(case, bool(changed or r['error'] is not None), cl, sample={'query': text, 'A': A0, 'B': B0, 'error': r['error']})
    ctx = {'query': text, 'before': A0, 'after': A}
    if A != A0 or len(A) != len(rowsA) or any(x is not y for x, y in zip(A, rowsA)) or any(type(x) is not type(y) for x, y in zip(A, A0)):
        raise Violation('input-list-modified', ctx)
    if B0 is not None and (B != B0 or any(x is not y for x, y in zip(B, rowsB))):
        raise Violation('join-list-modified', {'query': text, 'before': B0, 'after': B})
    ids = set(id(x) for x in rowsA + rowsB if not isinstance(x, tuple))     # an output that is the caller's (immutable) tuple shares nothing that could be modified
    for o in r['out']:
        if id(o) in ids:
            raise Violation('output-aliases-source-row', {'query': text, 'record': o})


def shard_lists(shard, nshards, tier, seed, scratch):
    total = 9000 if tier == 'quick' else 150000
    stats = Stats()
    fails = run_hypothesis(list_strategy(), lambda c: check_lists(c, stats), max(1, total // nshards), seed, shrink_budget=300 if tier == 'quick' else 2000)
    for f in fails:
        f['leg'] = 'lists'
    return {'stats': stats.export(), 'failures': fails}


# ---------------------------------------------------------------------------------------------

def check_js(case, drv, stats=None):
    q = case['q']
    if not qgen.renderable(q, 'js'):
        return
    tjs = with_modifier(qgen.render(q, 'js'))
    r = drv.query_table(tjs, copy.deepcopy(case['A']), copy.deepcopy(case.get('B')), case.get('a_names'), case.get('b_names'))
    if stats is not None:
        upd = q['type'] == 'update'
        stats.case(case, bool((upd and r['error'] is None and jsdriver.unclean(r['out']) != case['A']) or r['error'] is not None), ['js', 'js-update' if upd else 'js-select'] + (['js-failing'] if r['error'] else []),
                   sample={'js_query': tjs, 'A': case['A'], 'error': r['error']})
    if r.get('output_aliases_input'):
        raise Violation('js-output-aliases-input-row', {'js_query': tjs, 'A': case['A'], 'B': case.get('B')})
    if r.get('rows_replaced'):
        raise Violation('js-input-rows-replaced', {'js_query': tjs, 'A': case['A']})
    if jsdriver.unclean(r['A_after']) != case['A']:
        raise Violation('js-input-array-modified', {'js_query': tjs, 'before': case['A'], 'after': r['A_after']})
    if case.get('B') is not None and jsdriver.unclean(r['B_after']) != case['B']:
        raise Violation('js-join-array-modified', {'js_query': tjs, 'before': case['B'], 'after': r['B_after']})


def shard_js(shard, nshards, tier, seed, scratch):
    total = 3000 if tier == 'quick' else 60000
    stats = Stats()
    drv = jsdriver.Driver()
    try:
        strat = st.one_of(qgen.st_case_update(js=True, join_p=3), qgen.st_case_update(js=True, join_p=2, multi_match=True), c19.strategy(),
                          qgen.st_case_select(js=True, join_p=0, except_p=1, distinct=True, top=True, order=True), qgen.st_case_select(js=True, join_p=3, distinct=True, top=True, order=True, except_p=4))
        fails = run_hypothesis(strat, lambda c: check_js(c, drv, stats), max(1, total // nshards), seed, shrink_budget=200 if tier == 'quick' else 1500)
    finally:
        drv.close()
    for f in fails:
        f['leg'] = 'js'
    return {'stats': stats.export(), 'failures': fails}


# ---------------------------------------------------------------------------------------------

def rectangular(case):
    A, B = case['A'], case.get('B')
    if not A or len(set(len(r) for r in A)) != 1 or not A[0]:
        return False
    if B is not None and (not B or len(set(len(r) for r in B)) != 1 or not B[0]):
        return False
    return True


def check_pandas(case, stats=None):
    import pandas
    if not rectangular(case):
        return
    text = with_modifier(qgen.render(case['q']) if 'q' in case else case['query'])
    a_names, b_names = case.get('a_names'), case.get('b_names')
    df = pandas.DataFrame(copy.deepcopy(case['A']), columns=a_names)
    dfb = pandas.DataFrame(copy.deepcopy(case['B']), columns=b_names) if case.get('B') is not None else None
    # index shapes a caller's dataframe can have (a function of the case, so that replay is exact)
    variant = (len(case['A']) + len(text)) % 5
    for d in (df, dfb):
        if d is None:
            continue
        if variant == 1:
            d.index.name = 'idx'
        elif variant == 2:
            d.index = pandas.Index(['r%d' % (len(d) - i) for i in range(len(d))], name='kind')
        elif variant == 3:
            d.index = pandas.Index(list(range(len(d), 0, -1)))
        elif variant == 4:
            d.columns.name = 'cols'
    snap, snapb = df.copy(deep=True), (dfb.copy(deep=True) if dfb is not None else None)
    err = None
    try:
        engine.rbql.query_pandas_dataframe(text, df, [], dfb)
    except Exception as e:
        err = engine.err_info(e)
    if stats is not None:
        upd = text.lower().startswith('update')
        stats.case(case, bool(upd or err is not None), ['pandas', 'pandas-update' if upd else 'pandas-select', 'pandas-index-variant-%d' % variant] + (['pandas-failing'] if err else []), sample={'query': text, 'columns': a_names, 'error': err})
    for name, d, s in (('input', df, snap), ('join', dfb, snapb)):
        if d is None:
            continue
        if (not d.equals(s) or list(d.dtypes) != list(s.dtypes) or not d.index.equals(s.index) or not d.columns.equals(s.columns)
                or list(d.index.names) != list(s.index.names) or list(d.columns.names) != list(s.columns.names) or type(d.index) is not type(s.index)):
            raise Violation('pandas-%s-dataframe-modified' % name, {'query': text, 'before': s.values.tolist(), 'after': d.values.tolist()})


def shard_pandas(shard, nshards, tier, seed, scratch):
    total = 1500 if tier == 'quick' else 20000
    stats = Stats()
    strat = st.one_of(c05.strategy(), c05.strategy(), c01.strategy(), c04.strategy(), c14.st_poison())
    fails = run_hypothesis(strat, lambda c: check_pandas(c, stats), max(1, total // nshards), seed, shrink_budget=100 if tier == 'quick' else 800)
    for f in fails:
        f['leg'] = 'pandas'
    return {'stats': stats.export(), 'failures': fails}


# ---------------------------------------------------------------------------------------------
# sqlite

class RecordingCursor(object):
    def __init__(self, cur, log):
        self._cur = cur
        self._log = log

    def execute(self, sql, *args):
        self._log.append(sql)
        return self._cur.execute(sql, *args)

    def executemany(self, sql, *args):
        self._log.append(sql)
        return self._cur.executemany(sql, *args)

    def executescript(self, sql):
        self._log.append(sql)
        return self._cur.executescript(sql)

    def __getattr__(self, name):
        return getattr(self._cur, name)


class RecordingConnection(object):
    def __init__(self, con):
        self._con = con
        self.log = []
        self.txn_calls = []

    def cursor(self):
        return RecordingCursor(self._con.cursor(), self.log)

    def execute(self, sql, *args):
        self.log.append(sql)
        return self._con.execute(sql, *args)

    def executescript(self, sql):
        self.log.append(sql)
        return self._con.executescript(sql)

    # transaction control of the caller's connection is the caller's business: every use is recorded
    def commit(self):
        self.txn_calls.append('commit')
        return self._con.commit()

    def rollback(self):
        self.txn_calls.append('rollback')
        return self._con.rollback()

    def __enter__(self):
        self.txn_calls.append('with-enter')
        return self._con.__enter__()

    def __exit__(self, *exc):
        self.txn_calls.append('with-exit')
        return self._con.__exit__(*exc)

    def __getattr__(self, name):
        return getattr(self._con, name)


SQL_OK = re.compile(r'^SELECT \* FROM [A-Za-z0-9_]+;$')
ID_PIECES = ['t', 'j', 'T', 'j2', ';', 'DROP/**/TABLE/**/t', '--', "'", '"', '(', ')', 'sqlite_master', '/*', '*/', 't;', 'j;DELETE/**/FROM/**/t', '`', '[t]', 'ｔ', 'tа', '%', '\\', '.', 'main.t', 'j--x', '0', '_x', 'union', ',']


@st.composite
def st_sqlite(draw):
    hostile = draw(st.integers(0, 2)) != 0
    if hostile:
        ident = ''.join(draw(st.lists(st.sampled_from(ID_PIECES), min_size=1, max_size=4)))
    else:
        ident = draw(st.sampled_from(['j', 'j2', 'J', 'nosuch', 't']))
    where = draw(st.sampled_from(['join', 'join', 'input']))
    base = draw(st.sampled_from(['select a1, b2', 'select *', 'update a1 = b2', 'select a1, 1 / (2 - NR)', 'select a1 where a1 = 1', 'select distinct count b1']))
    kind = draw(st.sampled_from(['join', 'inner join', 'left join', 'strict left join', 'LEFT OUTER JOIN']))
    on = draw(st.sampled_from(['a1 == b1', 'a.name == b.name', 'a1==b1']))
    return {'kind': 'sqlite', 'ident': ident, 'where': where, 'base': base, 'join_kind': kind, 'on': on}


def sha(path):
    with open(path, 'rb') as f:
        return hashlib.sha256(f.read()).hexdigest()


def make_db(path):
    if os.path.exists(path):
        os.remove(path)
    con = sqlite3.connect(path)
    con.execute('create table t (name text, num integer)')
    con.executemany('insert into t values (?, ?)', [('k%d' % (i % 3), i) for i in range(6)])
    con.execute('create table j (name text, w text)')
    con.executemany('insert into j values (?, ?)', [('k1', 'one'), ('k2', 'two')])
    con.execute('create table j2 (name text, w text)')
    con.executemany('insert into j2 values (?, ?)', [('k0', 'zero'), ('k0', 'null')])
    con.commit()
    con.close()


def check_sqlite(case, scratch, stats=None):
    dbp = os.path.join(scratch, 'c06.sqlite')
    if not os.path.exists(dbp):
        make_db(dbp)
    before = sha(dbp)
    con = sqlite3.connect(dbp)
    # a third of the cases: the caller has an open write transaction (an uncommitted row) while the query runs
    pending = (len(case['ident']) + len(case['base'])) % 3 == 0
    if pending:
        con.execute("insert into j2 values ('pending', 'uncommitted')")
    rec = RecordingConnection(con)
    out = os.path.join(scratch, 'c06_sql_out.csv')
    ident = case['ident']
    if case['where'] == 'join':
        query = '%s %s %s on %s' % (case['base'], case['join_kind'], ident, case['on'])
        table = 't'
    else:
        query = case['base'].replace('b2', 'a2').replace('b1', 'a1')
        table = ident
    err = None
    try:
        rbql_sqlite.query_sqlite_to_csv(query, rec, table, out, ',', 'quoted', 'utf-8', [])
    except Exception as e:
        err = engine.err_info(e)
    txn_state = None
    if pending:
        still_open = con.in_transaction
        n_pending = con.execute("select count(*) from j2 where name = 'pending'").fetchone()[0]
        other = sqlite3.connect(dbp)
        n_committed = other.execute("select count(*) from j2 where name = 'pending'").fetchone()[0]
        other.close()
        txn_state = {'still_in_transaction': still_open, 'pending_rows_seen_by_caller': n_pending, 'pending_rows_committed_to_file': n_committed}
        con.rollback()
    con.close()
    after = sha(dbp)
    hostile = re.match(r'^[A-Za-z0-9_]+$', ident) is None
    if stats is not None:
        stats.case(case, hostile or err is not None, ['sqlite', 'sqlite-hostile-id' if hostile else 'sqlite-plain-id', 'sqlite-' + case['where']] + (['sqlite-failing'] if err else ['sqlite-success']) + (['sqlite-open-transaction'] if pending else []),
                   sample={'query': query, 'input_table': table, 'sql_sent': rec.log, 'error': err})
    ctx = {'query': query, 'input_table': table, 'sql_sent': rec.log, 'error': err, 'transaction': txn_state, 'transaction_calls': rec.txn_calls}
    if pending and txn_state != {'still_in_transaction': True, 'pending_rows_seen_by_caller': 1, 'pending_rows_committed_to_file': 0}:
        if before != after:
            make_db(dbp)
        raise Violation('sqlite-callers-open-transaction-disturbed', ctx)
    for sql in rec.log:
        if not SQL_OK.match(sql):
            raise Violation('sql-string-outside-whitelist', ctx)
    if before != after:
        make_db(dbp)
        raise Violation('sqlite-file-modified', ctx)
    for suffix in ('-journal', '-wal', '-shm'):
        if os.path.exists(dbp + suffix):
            raise Violation('sqlite-side-file', dict(ctx, file=dbp + suffix))
    if hostile and err is None:
        raise Violation('hostile-identifier-accepted', ctx)


def shard_sqlite(shard, nshards, tier, seed, scratch):
    total = 1500 if tier == 'quick' else 30000
    stats = Stats()
    fails = run_hypothesis(st_sqlite(), lambda c: check_sqlite(c, scratch, stats), max(1, total // nshards), seed, shrink_budget=100 if tier == 'quick' else 800)
    for f in fails:
        f['leg'] = 'sqlite'
    return {'stats': stats.export(), 'failures': fails}


# ---------------------------------------------------------------------------------------------
# CSV files

CSV_QUERIES = ['select *', 'select a1, a2 where a2 != "x"', "update a1 = 'z'", 'update a2 = a1, a1 = a2', 'select a1, b2 join {J} on a1 == b1', "update a1 = b2 join {J} on a1 == b1",
               'select * order by a2 desc', 'select a1, count(*) group by a1', 'select a1, 1 / (3 - NR)', 'select a1 where a1 = 1', 'select a1 +', 'select a1, b2 join {J} on a1 == b9',
               'select distinct count a1', 'select top 1 a1', "update a3 = 'q'", 'select * except a1', "update a1 = 'y' where NR == 2"]


@st.composite
def st_csv(draw):
    n = draw(st.integers(0, 6))
    rows = [[draw(st.sampled_from(['k1', 'k2', 'x', 'a,b', 'q"r', ''])), draw(st.sampled_from(['1', '2', 'x', 'é'])) ] for _ in range(n)]
    jrows = [[draw(st.sampled_from(['k1', 'k2', 'x'])), draw(st.sampled_from(['one', 'two']))] for _ in range(draw(st.integers(0, 3)))]
    return {'kind': 'csv', 'rows': rows, 'jrows': jrows, 'query': draw(st.sampled_from(CSV_QUERIES)), 'header': draw(st.booleans()),
            'policy': draw(st.sampled_from(['quoted', 'quoted_rfc', 'simple'])), 'cli': draw(st.integers(0, 7)) == 0, 'same_dir_out': draw(st.booleans())}


def stat_sig(path):
    s = os.stat(path)
    return (sha(path), s.st_mtime_ns, s.st_size, s.st_mode)


def check_csv(case, scratch, stats=None):
    src, jn = os.path.join(scratch, 'c06_in.csv'), os.path.join(scratch, 'c06_join.csv')
    dst = os.path.join(scratch, 'c06_out.csv')
    policy = case['policy']
    wpolicy = 'quoted' if policy != 'simple' else 'quoted'
    with open(src, 'w', encoding='utf-8') as f:
        f.write(refcsv.write_table(case['rows'], ',', 'quoted'))
    with open(jn, 'w', encoding='utf-8') as f:
        f.write(refcsv.write_table(case['jrows'], ',', 'quoted'))
    query = case['query'].replace('{J}', jn)
    # now and then the output destination is the directory that holds the sources (a mistake of the caller: an error at most, never a lost source)
    if len(query) % 7 == 3:
        dst = scratch
    b_src, b_jn = stat_sig(src), stat_sig(jn)
    err = None
    if case['cli']:
        env = dict(os.environ, PYTHONPATH=os.path.join(REPO, 'rbql-py'), PYTHONWARNINGS='ignore')
        cmd = [sys.executable, '-m', 'rbql', '--input', src, '--delim', ',', '--policy', policy, '--query', query, '--output', dst] + (['--with-headers'] if case['header'] else [])
        p = subprocess.run(cmd, capture_output=True, text=True, env=env, cwd=scratch)
        err = None if p.returncode == 0 else {'cls': 'cli-exit-%d' % p.returncode, 'msg': p.stderr[-200:]}
    else:
        try:
            engine.rbql.query_csv(query, src, ',', policy, dst, ',', 'quoted', 'utf-8', [], case['header'])
        except Exception as e:
            err = engine.err_info(e)
    a_src, a_jn = stat_sig(src), stat_sig(jn)
    if stats is not None:
        upd = query.lower().startswith('update')
        stats.case(case, bool(upd or err is not None), ['csv', 'csv-cli' if case['cli'] else 'csv-library', 'csv-update' if upd else 'csv-select'] + (['csv-failing'] if err else []),
                   sample={'query': query, 'rows': case['rows'], 'error': err})
    if a_src != b_src:
        raise Violation('csv-input-file-modified', {'query': query, 'before': b_src, 'after': a_src, 'cli': case['cli']})
    if a_jn != b_jn:
        raise Violation('csv-join-file-modified', {'query': query, 'before': b_jn, 'after': a_jn, 'cli': case['cli']})
    extra = sorted(set(os.listdir(scratch)) - {'c06_in.csv', 'c06_join.csv', 'c06_out.csv', 'c06.sqlite', 'c06_sql_out.csv'})
    if extra:
        raise Violation('unexpected-file-created', {'query': query, 'files': extra})


def shard_csv(shard, nshards, tier, seed, scratch):
    total = 1500 if tier == 'quick' else 30000
    stats = Stats()
    fails = run_hypothesis(st_csv(), lambda c: check_csv(c, scratch, stats), max(1, total // nshards), seed, shrink_budget=100 if tier == 'quick' else 800)
    for f in fails:
        f['leg'] = 'csv'
    return {'stats': stats.export(), 'failures': fails}


def replay(case, clause=None):
    import tempfile, shutil
    d = tempfile.mkdtemp(prefix='vf_c06_')
    try:
        k = case.get('kind')
        if k == 'sqlite':
            check_sqlite(case, d)
        elif k == 'csv':
            check_csv(case, d)
        else:
            check_lists(case)
            if 'q' in case:
                check_pandas(case)
                drv = jsdriver.Driver()
                try:
                    check_js(case, drv)
                finally:
                    drv.close()
    finally:
        shutil.rmtree(d, ignore_errors=True)


def probe_known(k):
    return False
