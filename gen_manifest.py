#!/usr/bin/env python3
# Regenerates MANIFEST.json from the table below (kept as a script so the file stays valid and uniform).
import json, os

PY = '/venv/bin/python -W ignore -m vf.run'
CHECKS = {}

def add(pid, category, text, note, technique, design_ref):
    CHECKS[pid] = {
        'property_id': pid,
        'quick_cmd': '%s %s --tier quick' % (PY, pid),
        'thorough_cmd': '%s %s --tier thorough' % (PY, pid),
        'evidence_file': 'evidence/%s.json' % pid,
        'replay_cmd_template': '%s %s --replay {path}' % (PY, pid),
        'engine': 'vf',
        'level_claimed': {'category': category, 'text': text, 'design_ref': design_ref},
        'level_note': note,
        'technique': technique,
    }

TRUST = 'Trusted: CPython eval for expression semantics (shared with the oracle by design), Hypothesis, the reference model in vf/refmodel.py and vf/refcsv.py. Bounds as reported in the evidence file.'

add('C01', 'exploration',
    'Random (table, header, join table, SELECT/WHERE query) cases from a grammar over every item kind are executed by rbql.query_table / rbql.query and compared record-for-record (values, types, order, list freshness) with an independent reference interpreter; no proof of absence beyond the explored sizes.',
    TRUST, 'property-based testing (Hypothesis) against a reference interpreter', 'DESIGN.md §2 C01')

NOT_APPLICABLE = []
ALL = ['C%02d' % i for i in range(1, 21)]
PENDING_REASON = 'check not built yet in this revision of /verif (planned, see DESIGN.md); not claimed until it exists and is quiet on the unchanged tree'

manifest = {
    'version': 1,
    'setup_cmd': '/venv/bin/python -c "import hypothesis" 2>/dev/null || /venv/bin/pip install --no-index --find-links /opt/veriftools/wheels hypothesis',
    'hooks': {
        'guard': 'RBQL_VERIF',
        'enable': 'no source hooks are needed: every observation point is reachable through public API with harness-supplied iterator / writer / registry / stream objects; checks import /repo/rbql-py and require /repo/rbql-js directly from the working tree',
        'baseline_off_cmd': 'cd /repo && /venv/bin/python -m pytest -ra -q -p no:cacheprovider --timeout=900 --continue-on-collection-errors',
        'source_commits': [],
        'add_only': True,
    },
    'engines': [{'name': 'vf', 'path': 'vf/', 'serves_properties': sorted(CHECKS), 'kind_free_text': 'Python harness: Hypothesis strategies + exhaustive enumerators + reference models; node driver under js/'}],
    'checks': [CHECKS[k] for k in sorted(CHECKS)],
    'notes': 'All checks: cwd=/verif, VERIF_SEED honoured, exit 0/1/2 = held / VIOLATION / harness error. fix: commits in /repo are listed in known_findings.json.',
    'not_applicable': NOT_APPLICABLE + [{'property_id': p, 'reason': PENDING_REASON} for p in ALL if p not in CHECKS and p not in [n['property_id'] for n in NOT_APPLICABLE]],
}
path = os.path.join(os.path.dirname(os.path.abspath(__file__)), 'MANIFEST.json')
with open(path, 'w') as f:
    json.dump(manifest, f, indent=1)
    f.write('\n')
print('wrote', path, len(CHECKS), 'checks')
