// Node batch driver: JSON lines over stdin/stdout. One request per line, one response per line.
// Requires the rbql-js modules of the working tree by absolute path (VERIF_REPO or /repo).
'use strict';
const path = require('path');
const fs = require('fs');
const os = require('os');
const readline = require('readline');
const { Readable, Writable, PassThrough } = require('stream');

const REPO = process.env.VERIF_REPO || '/repo';
const rbql = require(path.join(REPO, 'rbql-js', 'rbql.js'));
const rbql_csv = require(path.join(REPO, 'rbql-js', 'rbql_csv.js'));
const csv_utils = require(path.join(REPO, 'rbql-js', 'csv_utils.js'));

function err_info(e) {
    let cls = (e && e.constructor && e.constructor.name) ? e.constructor.name : 'Unknown';
    let msg = (e && e.message !== undefined) ? String(e.message) : String(e);
    return {cls: cls, msg: msg};
}

function clean(v) {
    // make values JSON-safe without losing what they were
    if (v === undefined) return {__undefined__: 1};
    if (typeof v === 'number' && !Number.isFinite(v)) return {__float__: String(v)};
    if (typeof v === 'bigint') return {__bigint__: v.toString()};
    if (Array.isArray(v)) return v.map(clean);
    if (v !== null && typeof v === 'object') {
        let out = {};
        for (let k of Object.keys(v)) out[k] = clean(v[k]);
        return {__object__: out};
    }
    if (typeof v === 'function') return {__function__: 1};
    return v;
}

// An exception thrown from inside a stream event handler of the code under test would kill the
// driver; it is routed to the request in flight instead and reported as that request's error.
let pending_fail = null;
process.on('uncaughtException', (e) => {
    if (pending_fail) {
        let f = pending_fail;
        pending_fail = null;
        f(e);
    }
});

async function guarded(fn) {
    try {
        return await Promise.race([fn(), new Promise((_, reject) => { pending_fail = reject; })]);
    } finally {
        pending_fail = null;
    }
}

async function do_query_table(req) {
    let A = req.A, B = (req.B === undefined ? null : req.B);
    let rows_before = A.slice().concat(B === null ? [] : B.slice());
    let out = [], warnings = [], header = [];
    let error = null;
    try {
        await rbql.query_table(req.query, A, out, warnings, B, req.a_names || null, req.b_names || null, header, req.normalize === undefined ? true : req.normalize, req.init || '');
    } catch (e) {
        error = err_info(e);
    }
    // identity checks can only be made on this side of the JSON transport
    let aliased = out.some(r => rows_before.indexOf(r) != -1);
    let shared = false;
    for (let i = 0; i < out.length && !shared; i++) {
        if (Array.isArray(out[i]) && out.indexOf(out[i]) != i) shared = true;
    }
    let rows_after = A.slice().concat(B === null ? [] : B.slice());
    let rows_replaced = rows_after.length != rows_before.length || rows_after.some((r, i) => r !== rows_before[i]);
    return {out: clean(out), header: header.length ? header : null, warnings: warnings, error: error, A_after: clean(A), B_after: clean(B),
            output_aliases_input: aliased, output_records_shared: shared, rows_replaced: rows_replaced};
}

const TAIL_POOL = ['a', 'b', '', 'ab', 'a b'];

function tail_record(nr, width) {
    let r = [String(nr)];
    for (let j = 0; j < width - 1; j++) r.push(TAIL_POOL[(nr * (j + 3)) % TAIL_POOL.length]);
    return r;
}

class BudgetExceeded extends Error {}

class EndlessIterator extends rbql.TableIterator {
    // a finite prefix followed by an endless deterministic tail; pulling more than `budget` records throws
    constructor(prefix, width, budget) {
        super(prefix, null, true);
        this.width = width;
        this.budget = budget;
        this.pulled = 0;
    }
    async get_record() {
        if (this.stopped) return null;
        this.pulled += 1;
        if (this.pulled > this.budget) throw new BudgetExceeded('budget');
        this.nr += 1;
        return this.nr <= this.table.length ? this.table[this.nr - 1] : tail_record(this.nr, this.width);
    }
}

async function do_query_endless(req) {
    let out = [], warnings = [];
    let it = new EndlessIterator(req.A, req.width, req.budget);
    let writer = new rbql.TableWriter(out);
    let finishes = 0;
    let orig_finish = writer.finish.bind(writer);
    writer.finish = async function() { finishes += 1; return await orig_finish(); };
    let reg = (req.B === undefined || req.B === null) ? null : new rbql.SingleTableRegistry(req.B, null, true);
    let error = null, exceeded = false;
    try {
        await rbql.query(req.query, it, writer, warnings, reg, '');
    } catch (e) {
        if (e instanceof BudgetExceeded) exceeded = true; else error = err_info(e);
    }
    return {out: clean(out), error: error, exceeded: exceeded, pulled: it.pulled, finishes: finishes};
}

async function do_query_shared_sequence(req) {
    // the caller's table objects are created once and handed to every query of the sequence; between queries the caller edits them.
    // Every query is also run on fresh deep copies of the current content: the two results must be equal.
    let A = req.A, B = req.B;
    let results = [];
    for (let step of req.steps) {
        if (step.mutate) {
            let T = step.mutate.table == 'A' ? A : B;
            if (step.mutate.op == 'replace-row') T[step.mutate.row] = step.mutate.value;
            else if (step.mutate.op == 'edit-cell') T[step.mutate.row][step.mutate.col] = step.mutate.value;
            else if (step.mutate.op == 'push-row') T.push(step.mutate.value);
            else if (step.mutate.op == 'pop-row') T.pop();
            else if (step.mutate.op == 'swap-rows') { let t = T[0]; T[0] = T[T.length - 1]; T[T.length - 1] = t; }
        }
        if (step.query) {
            let one = async (a, b) => { let out = [], w = [], err = null; try { await rbql.query_table(step.query, a, out, w, b, null, null, null, true, ''); } catch (e) { err = err_info(e); } return {out: clean(out), warnings: w, error: err}; };
            let shared = await one(A, B);
            let fresh = await one(JSON.parse(JSON.stringify(A)), JSON.parse(JSON.stringify(B)));
            results.push({query: step.query, shared: shared, fresh: fresh, A: clean(A), B: clean(B)});
        }
    }
    return {results: results};
}

function bufs_from(hex, cuts) {
    let data = Buffer.from(hex, 'hex');
    let pieces = [];
    let start = 0;
    for (let c of (cuts || [])) {
        if (c > start && c < data.length) {
            pieces.push(data.subarray(start, c));
            start = c;
        }
    }
    pieces.push(data.subarray(start));
    return pieces.filter(p => p.length > 0);
}

function cuts_from_mask(mask, n) {
    let cuts = [];
    for (let i = 0; i < n - 1; i++) {
        if ((mask >> i) & 1) cuts.push(i + 1);
    }
    return cuts;
}

async function read_stream(pieces, cfg) {
    let stream = Readable.from(pieces, {objectMode: false});
    let it = new rbql_csv.CSVRecordIterator(stream, null, cfg.encoding, cfg.delim, cfg.policy, !!cfg.has_header, cfg.comment_prefix || null);
    try {
        return await guarded(async () => {
            let header = await it.get_header();
            let records = await it.get_all_records();
            return {records: records, header: header, warnings: it.get_warnings(), error: null};
        });
    } catch (e) {
        return {records: null, header: null, warnings: null, error: err_info(e)};
    }
}

async function read_bulk(file_path, cfg) {
    let it = new rbql_csv.CSVRecordIterator(null, file_path, cfg.encoding, cfg.delim, cfg.policy, !!cfg.has_header, cfg.comment_prefix || null);
    try {
        return await guarded(async () => {
            let header = await it.get_header();
            let records = await it.get_all_records();
            return {records: records, header: header, warnings: it.get_warnings(), error: null};
        });
    } catch (e) {
        return {records: null, header: null, warnings: null, error: err_info(e)};
    }
}

async function read_file_stream(file_path, cfg) {
    let stream = fs.createReadStream(file_path, cfg.high_water_mark ? {highWaterMark: cfg.high_water_mark} : undefined);
    let it = new rbql_csv.CSVRecordIterator(stream, null, cfg.encoding, cfg.delim, cfg.policy, !!cfg.has_header, cfg.comment_prefix || null);
    try {
        return await guarded(async () => {
            let header = await it.get_header();
            let records = await it.get_all_records();
            return {records: records, header: header, warnings: it.get_warnings(), error: null};
        });
    } catch (e) {
        return {records: null, header: null, warnings: null, error: err_info(e)};
    }
}

function summarize(res, req) {
    // huge results are not shipped: count, digest and a few records
    if (res.error !== null || res.records === null) return res;
    let h = require('crypto').createHash('sha1');
    for (let r of res.records) h.update(JSON.stringify(r) + '\n');
    let idx = (req.at_indices || []).filter(i => i < res.records.length);
    return {records: null, header: res.header, warnings: res.warnings, error: null, n_records: res.records.length, sha1: h.digest('hex'),
            first: res.records[0], last: res.records[res.records.length - 1], at: idx.map(i => res.records[i])};
}

async function do_read_csv(req) {
    if (req.summary) {
        let r2 = Object.assign({}, req, {summary: false});
        return summarize(await do_read_csv(r2), req);
    }
    if (req.mode === 'bulk') return await read_bulk(req.path, req);
    if (req.mode === 'file') return await read_file_stream(req.path, req);
    if (req.mode === 'file-pieces') {
        // the file's bytes delivered as stream chunks whose sizes cycle through req.piece_sizes (small and large chunks mixed)
        let data = fs.readFileSync(req.path);
        let pieces = [];
        let pos = 0, k = 0;
        while (pos < data.length) {
            let n = req.piece_sizes[k % req.piece_sizes.length];
            pieces.push(data.subarray(pos, Math.min(pos + n, data.length)));
            pos += n;
            k += 1;
        }
        return await read_stream(pieces, req);
    }
    return await read_stream(bufs_from(req.hex, req.cuts), req);
}

async function do_read_two_streams(req) {
    // two stream readers alive at the same time: the first pieces of A are delivered, then B is delivered and read completely,
    // then the rest of A. Both results must equal what each stream gives on its own.
    let pa = bufs_from(req.hex_a, req.cuts_a), pb = bufs_from(req.hex_b, req.cuts_b);
    let sa = new PassThrough(), sb = new PassThrough();
    let ita = new rbql_csv.CSVRecordIterator(sa, null, req.encoding, req.delim, req.policy, false, req.comment_prefix || null);
    let itb = new rbql_csv.CSVRecordIterator(sb, null, req.encoding, req.delim, req.policy, false, req.comment_prefix || null);
    let out = {a: null, b: null};
    try {
        return await guarded(async () => {
            let pra = ita.get_all_records().then(r => ({records: r, warnings: ita.get_warnings(), error: null}), e => ({records: null, warnings: null, error: err_info(e)}));
            let k = Math.min(req.first_a === undefined ? 1 : req.first_a, pa.length);
            for (let i = 0; i < k; i++) sa.write(pa[i]);
            await new Promise(r => setImmediate(r));
            let prb = itb.get_all_records().then(r => ({records: r, warnings: itb.get_warnings(), error: null}), e => ({records: null, warnings: null, error: err_info(e)}));
            for (let p of pb) sb.write(p);
            sb.end();
            out.b = await prb;
            for (let i = k; i < pa.length; i++) sa.write(pa[i]);
            sa.end();
            out.a = await pra;
            return out;
        });
    } catch (e) {
        return {a: out.a, b: out.b, error: err_info(e)};
    }
}

async function do_read_partitions(req) {
    // every job: one byte string, every listed mask (or all masks) - returns the whole-delivery
    // result and the masks whose result differs from it (with what they gave)
    let results = [];
    for (let job of req.jobs) {
        let data = Buffer.from(job.hex, 'hex');
        let n = data.length;
        let whole = await read_stream(n ? [data] : [], req);
        let whole_s = JSON.stringify(whole);
        let bad = [];
        let nmasks = 0;
        let total = n > 1 ? (1 << (n - 1)) : 1;
        let step = job.step || 1;
        for (let mask = (job.first_mask === undefined ? 1 : job.first_mask); mask < total; mask += step) {
            let got = await read_stream(bufs_from(job.hex, cuts_from_mask(mask, n)), req);
            nmasks += 1;
            if (JSON.stringify(got) !== whole_s && bad.length < 3) bad.push({mask: mask, got: got});
        }
        results.push({whole: whole, bad: bad, nmasks: nmasks});
    }
    return {results: results};
}

class Collect extends Writable {
    constructor() { super(); this.chunks = []; }
    _write(chunk, enc, cb) { this.chunks.push(Buffer.isBuffer(chunk) ? chunk : Buffer.from(chunk, enc)); cb(); }
}

async function do_write_csv(req) {
    let sink = new Collect();
    let error = null, warnings = null;
    try {
        let w = new rbql_csv.CSVWriter(sink, true, req.encoding, req.delim, req.policy, req.line_sep === undefined ? '\n' : req.line_sep);
        for (let rec of req.table) await w.write(rec.slice());
        await w.finish();
        warnings = w.get_warnings();
    } catch (e) {
        error = err_info(e);
    }
    return {hex: Buffer.concat(sink.chunks).toString('hex'), warnings: warnings, error: error};
}

function do_split(req) {
    let out = [];
    for (let line of req.lines) {
        try {
            let r = csv_utils.smart_split(line, req.delim, req.policy, !!req.preserve);
            out.push([r[0], !!r[1]]);
        } catch (e) {
            out.push({error: err_info(e)});
        }
    }
    return {results: out};
}

function do_quote(req) {
    let fn = req.rfc ? csv_utils.rfc_quote_field : csv_utils.quote_field;
    return {results: req.fields.map(f => fn(f, req.delim))};
}

function do_unquote(req) {
    return {results: req.fields.map(f => csv_utils.unquote_field(f))};
}

async function do_query_csv(req) {
    let warnings = [];
    let error = null;
    try {
        await rbql_csv.query_csv(req.query, req.input_path, req.delim, req.policy, req.output_path, req.out_delim, req.out_policy, req.encoding, warnings, !!req.with_headers, req.comment_prefix || null, '', req.options || null);
    } catch (e) {
        error = err_info(e);
    }
    return {warnings: warnings, error: error};
}

async function handle(req) {
    switch (req.cmd) {
        case 'ping': return {pong: true, node: process.version, repo: REPO};
        case 'query_table': return await do_query_table(req);
        case 'query_endless': return await do_query_endless(req);
        case 'query_shared_sequence': return await do_query_shared_sequence(req);
        case 'query_batch': {
            let results = [];
            for (let r of req.items) results.push(await do_query_table(r));
            return {results: results};
        }
        case 'read_csv': return await do_read_csv(req);
        case 'read_partitions': return await do_read_partitions(req);
        case 'read_two_streams': return await do_read_two_streams(req);
        case 'write_csv': return await do_write_csv(req);
        case 'split': return do_split(req);
        case 'quote': return do_quote(req);
        case 'unquote': return do_unquote(req);
        case 'query_csv': return await do_query_csv(req);
        default: return {driver_error: 'unknown command ' + req.cmd};
    }
}

async function main() {
    const rl = readline.createInterface({input: process.stdin, crlfDelay: Infinity});
    for await (const line of rl) {
        if (!line.trim()) continue;
        let resp;
        try {
            resp = await handle(JSON.parse(line));
        } catch (e) {
            resp = {driver_error: String(e && e.stack ? e.stack : e)};
        }
        process.stdout.write(JSON.stringify(resp) + '\n');
    }
}

process.on('unhandledRejection', (e) => { /* stored exceptions of abandoned iterators */ });
main();
