# C07 - Output header always matches output records and follows the naming rules.
from __future__ import annotations

import copy
import io
import os

from hypothesis import strategies as st

from ..common import Stats, run_hypothesis, Violation
from .. import qgen, relcheck, refmodel, engine
from . import c03

PROP = 'C07'
LEVEL = 'exploration'
RULE = ('Hypothesis-generated select lists over all item kinds (5 field spellings, bare NR/NF/bNR, expressions with nested brackets and commas inside '
        'calls / literals / displays, stars, UNNEST, aggregates, aliases AS/as) x {header, no header} x {join, no join} x {DISTINCT, DISTINCT COUNT, '
        'TOP, GROUP BY}, plus * EXCEPT and UPDATE; observed through query_table(output_column_names), the first line of query_csv output and the '
        'columns of query_pandas_dataframe. Oracle: (i) len(header) == len(record) for every output record; (ii) reference naming function on the '
        'structured query (alias / source column name / identifier / colK); header-less input gives a header iff an alias is used; star+alias on '
        'header-less input must be rejected. Non-trivial = >=3 items of >=3 different naming kinds, or DISTINCT COUNT / EXCEPT / star with join.'
        ' Later additions: deterministic wide-header cases (25 and 101 named columns, aN / a[N] with two- and three-digit N, bN under a JOIN), f-string and dict-literal items.')
ASSUMPTIONS = ['no redundant parentheses around a lone variable (whether `(a1)` is "an aN" is not fixed by the property)',
               'select lists have a fixed column count (no *-unpacking of variable-length values)']


def plan(tier):
    return {'stages': [('shard', 16)], 'timeout_s': 3000}


COMPLEX = [
    ("max(len({f} or ''), 3)", None), ("[{f}, {g}][0]", "[{f}, {g}][0]"), ("{{'k': {f}, 'z': [1, 2]}}['k']", None), ("'x,y'", "'x,y'"),
    ('"a, (b"', '"a, (b"'), ("({f}, {g})", None), ("'{{}},{{}}'.format({f}, NR)", None), ("str({f})[1:]", None), ("[{f}, ({g}, 'q]')]", None),
    ("len([{f}, {g}, NR])", "[{f}, {g}, NR].length"), ("({f} or '') + ', as z'", "({f} || '') + ', as z'"), ("NR + 1", "NR + 1"), ("-NR", "-NR"),
    ("math.pi", None), ("os.sep", None), ("NR.real", None), ("math.e", None), ("({f} or 'x').upper", None), ("datetime.MAXYEAR", None),
    ("({f} or 'x').upper()", None), ("{f} or 'n/a'", "{f} || 'n/a'"), ("not {f}", "!{f}"), ("{f} and {g}", "{f} && {g}"), ("lambda: {f}", None), ("{f} == {g} or NR > 1", "{f} == {g} || NR > 1"), ("[1, 2, 3]", "[1, 2, 3]"), ("None", "null"), ("{f} if NR % 2 else {g}", None), ("(lambda t, u: t)({f}, 1)", None),
]


@st.composite
def st_header_case(draw):
    hdr = draw(st.integers(0, 3)) != 0
    want_join = draw(st.integers(0, 2)) == 0
    aw = draw(st.integers(1, 4))
    n = draw(st.integers(0, 4))
    cell = st.sampled_from(['a', 'b', '', 'x y', '10'])
    A = [draw(st.lists(cell, min_size=aw, max_size=aw)) for _ in range(n)]
    a_names = qgen.st_names(draw, aw) if hdr else None
    B, b_names, join, bw = None, None, None, 0
    if want_join:
        bw = draw(st.integers(1, 3))
        B = [draw(st.lists(cell, min_size=bw, max_size=bw)) for _ in range(draw(st.integers(0, 3)))]
        b_names = qgen.st_names(draw, bw) if hdr else None
        join = qgen.st_join(draw, aw, bw, a_names, b_names, kinds=['JOIN', 'LEFT JOIN', 'INNER JOIN'], max_pairs=1)
    ctx = qgen.Ctx(draw, aw, a_names, bw, b_names, has_join=join is not None)
    dk = draw(st.integers(0, 5))
    complex_pool = COMPLEX if dk > 1 else [t for t in COMPLEX if not t[0].startswith('[') and 'q]' not in t[0]]
    items = []
    kinds_used = set()
    have_unnest = False
    nitems = draw(st.integers(1, 6))
    for _ in range(nitems):
        k = draw(st.integers(0, 12))
        if k <= 2:
            it = {'k': 'expr', 'e': qgen.field(ctx)}
            kinds_used.add('field-' + it['e']['sp'])
        elif k == 3:
            v = draw(st.sampled_from(['NR', 'NF'] + (['bNR'] if join else [])))
            it = {'k': 'expr', 'e': {'py': v, 'js': v, 'name': {'id': v}, 'ty': 'int'}}
            kinds_used.add('ident')
        elif k <= 6:
            tpl = draw(st.sampled_from(complex_pool))
            f, g = qgen.field(ctx)['py'], qgen.field(ctx)['py']
            it = {'k': 'expr', 'e': qgen.mk(tpl[0].format(f=f, g=g), tpl[1].format(f=f, g=g) if tpl[1] else None, 'any')}
            kinds_used.add('complex')
        elif k == 7:
            it = {'k': draw(st.sampled_from(['star', 'astar'] + (['bstar'] if join else [])))}
            kinds_used.add('star')
        elif k == 8 and not have_unnest:
            have_unnest = True
            it = {'k': 'unnest', 'e': qgen.mk("['u', NR]", "['u', NR]", 'list'), 'sp': 'UNNEST'}
            kinds_used.add('unnest')
        elif k == 9:
            it = {'k': 'expr', 'e': qgen.strlit(ctx, ['x,y', 'a as b', '(', 'z', 'a, b AS c', 'select *'])}
            kinds_used.add('literal')
        else:
            it = {'k': 'expr', 'e': qgen.e_any(ctx, hashable=True)}
            kinds_used.add('named' if it['e'].get('name') else 'expr')
        if it['k'] in ('expr', 'unnest') and draw(st.integers(0, 3)) == 0:
            it['alias'] = draw(st.sampled_from(qgen.ALIAS_POOL + ['As', 'a1', 'NR_']))
            it['as_kw'] = draw(st.sampled_from(['AS', 'as', 'As', 'aS']))
            if draw(st.integers(0, 2)) == 0:
                # any amount of blank space around the keyword and after the alias
                it['as_lead'] = draw(st.sampled_from([' ', '  ', '   ']))
                it['as_sp'] = draw(st.sampled_from([' ', '  ', '    ']))
                it['as_trail'] = draw(st.sampled_from(['', ' ', '  ']))
            kinds_used.add('alias')
        items.append(it)
    q = {'type': 'select', 'items': items, 'join': join}
    if draw(st.integers(0, 3)) == 0:
        q['where'] = qgen.e_truthy(ctx)
    if dk == 0:
        q['distinct'] = 'distinct'
    elif dk == 1:
        q['distinct'] = 'count'
    if draw(st.integers(0, 4)) == 0:
        q['top'] = {'n': draw(st.integers(0, 3)), 'form': draw(st.sampled_from(['TOP', 'LIMIT']))}
    if draw(st.integers(0, 4)) == 0:
        q['order'] = {'keys': [qgen.e_key(ctx)], 'desc': draw(st.booleans()), 'asc_kw': False}
    return {'A': A, 'B': B, 'a_names': a_names, 'b_names': b_names, 'q': q, 'kinds_used': sorted(kinds_used)}


def strategy():
    exc = qgen.st_case_select(join_p=0, except_p=1, distinct=True, top=True, max_rows=4)
    return st.one_of(st_header_case(), st_header_case(), st_header_case(), c03.st_case(), exc, qgen.st_case_update(join_p=4),
                     qgen.st_case_select(join_p=3, order=True, distinct=True, top=True))


def distinct_needs_hashable(case):
    return case['q'].get('distinct') is not None


def csv_leg(case, text, exp_header, scratch):
    """First line of query_csv output; the CSV writer enforces the width itself."""
    from rbql import rbql_csv
    rbql = engine.rbql
    a_names = case.get('a_names')
    if case.get('B') is not None or exp_header == []:
        return None   # (a zero-column header is an empty line, indistinguishable from one empty field)
    path_in = os.path.join(scratch, 'c07_in.csv')
    path_out = os.path.join(scratch, 'c07_out.csv')
    rows = ([list(a_names)] if a_names is not None else []) + [[('' if c is None else str(c)) for c in r] for r in case['A']]
    with open(path_in, 'w', encoding='utf-8', newline='') as f:
        for r in rows:
            f.write(','.join('"%s"' % c.replace('"', '""') for c in r) + '\n')
    warnings = []
    try:
        rbql.query_csv(text, path_in, ',', 'quoted', path_out, ',', 'quoted', 'utf-8', warnings, a_names is not None)
    except Exception as e:
        return {'error': engine.err_info(e)}
    with open(path_out, 'rb') as f:
        it = rbql_csv.CSVRecordIterator(f, 'utf-8', ',', 'quoted')
        recs = it.get_all_records()
    return {'records': recs}


def pandas_leg(case, text):
    import pandas
    rbql = engine.rbql
    a_names = case.get('a_names')
    A = case['A']
    if not A or len(set(len(r) for r in A)) != 1 or len(A[0]) == 0 or any(c is None for r in A for c in r):
        return None
    df = pandas.DataFrame(copy.deepcopy(A), columns=a_names)
    dfb = None
    if case.get('B') is not None:
        B = case['B']
        if not B or len(set(len(r) for r in B)) != 1 or len(B[0]) == 0 or any(c is None for r in B for c in r):
            return None
        dfb = pandas.DataFrame(copy.deepcopy(B), columns=case.get('b_names'))
    try:
        res = rbql.query_pandas_dataframe(text, df, [], dfb)
    except Exception as e:
        return {'error': engine.err_info(e)}
    cols = None if isinstance(res.columns, pandas.RangeIndex) else [c for c in res.columns]
    return {'columns': cols, 'width': res.shape[1], 'rows': res.shape[0]}


def check_case(case, stats=None, scratch=None, legs=True):
    q = case['q']
    tup = relcheck.run_both(case, 'table')
    text, exp, exp_err, got, A, B = tup
    try:
        exp_header = refmodel.ref_header(q, case.get('a_names'), case.get('b_names'))
        hdr_err = None
    except refmodel.RefError as e:
        exp_header, hdr_err = None, e
    if stats is not None:
        cl = []
        ku = case.get('kinds_used', [])
        cl += ['kind-' + k for k in ku]
        cl.append('header' if case.get('a_names') is not None else 'no-header')
        if q.get('join'):
            cl.append('join')
        if q.get('distinct'):
            cl.append('distinct-' + q['distinct'])
        if q.get('except'):
            cl.append('except')
        if q['type'] == 'update':
            cl.append('update')
        if q.get('group') is not None or any(it.get('k') == 'agg' for it in q.get('items', [])):
            cl.append('aggregate')
        if hdr_err is not None:
            cl.append('star+alias-without-header')
        star_join = q.get('join') and any(it['k'] in ('star', 'bstar') for it in q.get('items', []))
        nt = (len(q.get('items', [])) >= 3 and len(ku) >= 3) or q.get('distinct') == 'count' or bool(q.get('except')) or bool(star_join)
        stats.case(case, nt, cl, sample={'query': text, 'a_names': case.get('a_names'), 'b_names': case.get('b_names'), 'header': got['header'], 'error': got['error']})
    ctx = {'query': text, 'a_names': case.get('a_names'), 'b_names': case.get('b_names')}
    if hdr_err is not None:
        if got['error'] is None or got['error']['cls'] != 'RbqlParsingError':
            raise Violation('star-alias-headerless-not-rejected', dict(ctx, got=got['error'], header=got['header']))
        return
    if got['error'] is not None:
        if exp_err is not None:
            return  # a legitimately failing query (non-constant group column, strict join, ...) has no header to judge
        raise Violation('unexpected-error:' + got['error']['cls'], dict(ctx, error=got['error']))
    ragged = len(set(len(r) for r in case['A'])) > 1 or (case.get('B') is not None and len(set(len(r) for r in case['B'])) > 1)
    fixed_width = not (ragged and (q['type'] == 'update' or q.get('except') or any(it['k'] in ('star', 'astar', 'bstar') for it in q.get('items', []))))
    if got['header'] is not None and fixed_width:
        for i, r in enumerate(got['out']):
            if len(r) != len(got['header']):
                raise Violation('header-width', dict(ctx, header=got['header'], record=r))
    if (got['header'] or None) != (exp_header or None):   # query_table's output list cannot tell [] from None
        raise Violation('header-names', dict(ctx, got=got['header'], expected=exp_header))
    if not legs or scratch is None or not fixed_width:
        return
    sel = len(text) % 4
    if sel == 0 and q['type'] == 'select' or sel == 1:
        r = csv_leg(case, text, exp_header, scratch)
        if r is not None:
            if stats is not None:
                stats.bump('leg-csv')
            if 'error' in r:
                if 'Inconsistent number of columns in output header' in r['error']['msg']:
                    raise Violation('csv-header-width', dict(ctx, error=r['error']))
                if exp_err is None and r['error']['cls'] != 'RbqlRuntimeError':
                    # data differ (None -> ''), so runtime outcomes may differ; parse-level outcomes may not
                    raise Violation('csv-unexpected-error', dict(ctx, error=r['error']))
            elif exp_header is not None:
                if not r['records'] or r['records'][0] != [str(x) for x in exp_header]:
                    raise Violation('csv-header-line', dict(ctx, first_line=r['records'][:1], expected=exp_header))
                if any(len(x) != len(exp_header) for x in r['records']):
                    raise Violation('csv-width', dict(ctx, records=r['records'][:4]))
    elif sel == 2:
        r = pandas_leg(case, text)
        if r is not None:
            if stats is not None:
                stats.bump('leg-pandas')
            if 'error' in r:
                if r['error']['cls'] in ('ValueError', 'AssertionError') or exp_err is None and r['error']['cls'] not in ('RbqlRuntimeError',):
                    raise Violation('pandas-error', dict(ctx, error=r['error']))
            else:
                if r['columns'] != (list(exp_header) if exp_header is not None else None):
                    raise Violation('pandas-columns', dict(ctx, got=r['columns'], expected=exp_header))


def shard(shard, nshards, tier, seed, scratch):
    total = 26000 if tier == 'quick' else 240000
    stats = Stats()
    failures = run_hypothesis(strategy(), lambda c: check_case(c, stats, scratch), max(1, total // nshards), seed, shrink_budget=300 if tier == 'quick' else 2000)
    if shard == 1 and not failures:
        from .. import largecases
        for case in largecases.large_cases('wide-header'):
            try:
                check_case(case, None, scratch)
                stats.bump('wide-header-case')
                stats.evaluations += 1
            except Violation as v:
                d = dict(v.detail or {})
                for k in ('A', 'B', 'a_names', 'b_names'):
                    d.pop(k, None)
                failures.append({'clause': 'wide-' + v.clause, 'detail': d, 'case': {'kind': 'large', 'which': 'wide-header'}})
                break
    return {'stats': stats.export(), 'failures': failures}


def replay(case, clause=None):
    import tempfile, shutil
    d = tempfile.mkdtemp(prefix='vf_c07_')
    try:
        if isinstance(case, dict) and case.get('kind') == 'large':
            from .. import largecases
            for c in largecases.large_cases(case['which']):
                check_case(c, None, d)
            return
        check_case(case, None, d)
    finally:
        shutil.rmtree(d, ignore_errors=True)


def probe_known(k):
    return False
