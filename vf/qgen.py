# Query/table generators (Hypothesis strategies) and renderers.
#
# A *case* is a JSON-able dict:
#   {'A': table, 'B': table|None, 'a_names': [..]|None, 'b_names': [..]|None, 'q': query}
# A *query* is a structured value (never text); render(q, 'py'|'js') produces RBQL text.
# Expressions are pairs of pre-rendered texts {'py':..., 'js':...|None, 'name':...} built
# compositionally so that they are evaluable on the table they were generated for.
from __future__ import annotations

import keyword

from hypothesis import strategies as st

CELL_POOL = ['', 'a', 'b', 'ab', 'a b', 'B', '10', '9', '100', 'x,y', ' a', 'a!', 'k', 'zz', 'A;B', 'q"r', "it's", 'é', 'a%', '_']
JS_SAFE_CELL_POOL = ['', 'a', 'b', 'ab', 'a b', 'B', '10', '9', '100', 'x,y', ' a', 'a!', 'k', 'zz', 'A;B', 'q"r', "it's", 'a%', '_']
NAME_POOL = ['k', 'v', 'name', 'x1', '_id', 'Col', 'zz', 'w', 'val', 'key_2', 'Total', 'n', 'a_1', 'k2', 'v10', 'name2', 'col2', 'col1', 'col3']
LIT_POOL = ['', 'a', 'b', 'x', 'a b', ',', ';', 'zz', '10', '-', 'A', '%', 'a%', '_', '(', ')', '[x]', '#', 'é', '$$', '$&', 'p$$q', '$1', '{}', '%s', 'a\tb', '\t', 'a  b', ' a ', '\x0b', 'a\xa0b']
ALIAS_POOL = ['x', 'y', 'res', 'Total', 'c_1', 'zed', 'alias9']

AGG_FUNCS = ['COUNT', 'MIN', 'MAX', 'SUM', 'AVG', 'VARIANCE', 'MEDIAN', 'ARRAY_AGG', 'ANY_VALUE']
AGG_SPELLINGS = {
    'COUNT': ['COUNT', 'count', 'Count'],
    'MIN': ['MIN', 'min', 'Min'],
    'MAX': ['MAX', 'max', 'Max'],
    'SUM': ['SUM', 'sum', 'Sum'],
    'AVG': ['AVG', 'avg', 'Avg'],
    'VARIANCE': ['VARIANCE', 'variance', 'Variance'],
    'MEDIAN': ['MEDIAN', 'median', 'Median'],
    'ARRAY_AGG': ['ARRAY_AGG', 'array_agg'],
    'ANY_VALUE': ['ANY_VALUE', 'any_value', 'Any_value'],
}
# rbql-js knows only these spellings
JS_AGG_SPELLINGS = {k: [k, k.lower()] for k in AGG_FUNCS}


def py_str(s, q="'"):
    out = []
    for ch in s:
        if ch == '\\':
            out.append('\\\\')
        elif ch == q:
            out.append('\\' + q)
        elif ch == '\n':
            out.append('\\n')
        elif ch == '\r':
            out.append('\\r')
        elif ch == '\t':
            out.append('\\t')
        else:
            out.append(ch)
    return q + ''.join(out) + q


def js_str(s, q="'"):
    return py_str(s, q)  # the common escapes mean the same in both languages


def is_attr_name(name):
    return name.isidentifier() and name.isascii() and not keyword.iskeyword(name) and not name.startswith('__') and name not in ('NR', 'NF')


class Ctx(object):
    """What the expression generator may refer to."""

    def __init__(self, draw, a_width, a_names, b_width=0, b_names=None, has_join=False, js=False, cells_may_be_none=True):
        self.draw = draw
        self.a_width = a_width      # fields 1..a_width+1 may be referenced (one past the end -> None)
        self.a_names = a_names
        self.b_width = b_width
        self.b_names = b_names
        self.has_join = has_join
        self.js = js                # restrict to the language-neutral fragment
        self.cells_may_be_none = cells_may_be_none
        self.no_past_end = False    # never reference a field one past the widest record (keeps None out of the output)


def field(ctx, table=None, allow_past_end=True, idx=None):
    d = ctx.draw
    if table is None:
        table = 'b' if (ctx.has_join and d(st.integers(0, 3)) == 0) else 'a'
    width = ctx.a_width if table == 'a' else ctx.b_width
    names = ctx.a_names if table == 'a' else ctx.b_names
    if idx is None:
        hi = width if (allow_past_end and not ctx.no_past_end and d(st.integers(0, 5)) == 0) else max(width - 1, 0)
        idx = d(st.integers(0, hi))
    spellings = ['aN', 'aN', 'a[N]']
    if names is not None and idx < len(names):
        spellings += ['a["n"]', "a['n']"]
        if is_attr_name(names[idx]):
            spellings += ['a.n', 'a.n']
    sp = d(st.sampled_from(spellings))
    return field_expr(table, idx, sp, names)


def field_expr(table, idx, sp, names):
    if sp == 'aN':
        t = '%s%d' % (table, idx + 1)
    elif sp == 'a[N]':
        t = '%s[%d]' % (table, idx + 1)
    elif sp == 'a.n':
        t = '%s.%s' % (table, names[idx])
    elif sp == 'a["n"]':
        t = '%s[%s]' % (table, py_str(names[idx], '"'))
    elif sp == "a['n']":
        t = '%s[%s]' % (table, py_str(names[idx], "'"))
    else:
        raise ValueError(sp)
    return {'py': t, 'js': t, 'name': {'f': [table, idx]}, 'ty': 'cell', 'sp': sp}


def sfield(ctx, **kw):
    f = field(ctx, **kw)
    return {'py': "(%s or '')" % f['py'], 'js': "(%s || '')" % f['js'], 'name': None, 'ty': 'str'}


def strlit(ctx, pool=None):
    s = ctx.draw(st.sampled_from(pool or LIT_POOL))
    q = ctx.draw(st.sampled_from(["'", '"']))
    py, js = py_str(s, q), js_str(s, q)
    if '\t' in s and '\\' not in s and ctx.draw(st.booleans()):
        # a raw TAB character inside the quotes (not the two-character escape)
        py, js = py.replace('\\t', '\t'), js.replace('\\t', '\t')
    return {'py': py, 'js': js, 'name': None, 'ty': 'str', 'lit': s}


def mk(py, js, ty):
    return {'py': py, 'js': js, 'name': None, 'ty': ty}


def both(fmt_py, fmt_js, ty, *args):
    py = fmt_py.format(*[a['py'] for a in args])
    js = None if (fmt_js is None or any(a['js'] is None for a in args)) else fmt_js.format(*[a['js'] for a in args])
    return mk(py, js, ty)


def e_fstring(ctx):
    """f'<{a[1]}|{a2}>': variables that occur only inside an f-string literal (Python only)."""
    d = ctx.draw
    q = d(st.sampled_from(["'", '"']))
    parts = [d(st.sampled_from(['<', '', 'x ']))]
    for _ in range(d(st.integers(1, 2))):
        f = field(ctx)
        t = f['py']
        if q in t:
            t = t.replace(q, "'" if q == '"' else '"') if ('\\' not in t and ("'" if q == '"' else '"') not in t) else None
        if t is None:
            t = 'NR'
        parts.append('{%s}' % t + d(st.sampled_from(['', '|', ' '])))
    return mk(d(st.sampled_from(['f', 'f', 'F'])) + q + ''.join(parts) + q, None, 'str')


def e_str(ctx, depth=0):
    d = ctx.draw
    k = d(st.integers(0, 9 if depth < 2 else 2))
    if k == 9 and not ctx.js and d(st.booleans()):
        return e_fstring(ctx)
    return _e_str(ctx, depth, k)


def e_kwcall(ctx):
    """Calls with a keyword argument after a comma (`, name=` inside an expression is not an assignment). Only for select items and UPDATE
    right-hand sides: a single `=` anywhere in a WHERE expression is rejected by design."""
    d = ctx.draw
    if True:
        f1, f2 = sfield(ctx, table='a'), sfield(ctx, table='a')
        return mk(d(st.sampled_from(["{0}.split('-', maxsplit=1)[0]", "'{{x}}/{{y}}'.format(x={0}, y={1})", "sorted([{0}, {1}], key=len)[0]", "max({0}, {1}, key=len)", "{0}.encode('utf-8', errors='replace').decode('utf-8')",
                                     "str({0}, ).strip('x', )", "(lambda p, q=1: p * q)({0}, q=2)", "dict(k={0}, v={1})['k']"])).format(f1['py'], f2['py']), None, 'str')


def _e_str(ctx, depth, k):
    d = ctx.draw
    if k <= 1:
        return sfield(ctx)
    if k == 2:
        return strlit(ctx)
    if k == 3:
        return both('{} + {}', '{} + {}', 'str', e_str(ctx, depth + 1), strlit(ctx))
    if k == 4:
        return both('{} + {} + {}', '{} + {} + {}', 'str', strlit(ctx), sfield(ctx), e_str(ctx, depth + 1))
    if k == 5:
        return both('{}.upper()', '{}.toUpperCase()', 'str', sfield(ctx)) if not ctx.js else both('{}.lower()', '{}.toLowerCase()', 'str', strlit(ctx, ['A', 'zz', 'B', 'a b']))
    if k == 6:
        return both('str({})', 'String({})', 'str', e_int(ctx, depth + 1))
    if k == 7:
        if d(st.integers(0, 2)) == 1:
            # a method whose name is an RBQL keyword (join): part of the expression, not a clause
            return both("'-'.join([{}, {}])", "[{}, {}].join('-')", 'str', sfield(ctx), sfield(ctx))
        n = d(st.integers(0, 2))
        return both('{}[%d:]' % n, '{}.slice(%d)' % n, 'str', sfield(ctx))
    if k == 8:
        if ctx.js:
            return both('({} if {} else {})', '({1} ? {0} : {2})', 'str', e_str(ctx, depth + 1), e_bool(ctx, depth + 1), strlit(ctx))
        return both('"{{}}:{{}}".format({}, {})', None, 'str', field(ctx), e_int(ctx, depth + 1))
    if ctx.js:
        return both('{} + {}', '{} + {}', 'str', sfield(ctx), sfield(ctx))
    return both('{}.replace({}, {})', None, 'str', sfield(ctx), strlit(ctx, ['a', 'b', ' ', ',']), strlit(ctx))


def e_int(ctx, depth=0):
    d = ctx.draw
    if d(st.integers(0, 24)) == 0:
        # distinct numbers with equal CPython hashes (-1 / -2; 0 / 2**61-1): equality, not hashing, decides what is "distinct"
        if ctx.js or d(st.booleans()):
            return mk('(-1 - NR % 2)', '(-1 - NR % 2)', 'int')
        return mk('(NR % 2 * 2305843009213693951)', None, 'int')
    k = d(st.integers(0, 8 if depth < 2 else 3))
    if k == 0:
        if ctx.a_names is None and d(st.integers(0, 3)) == 0:
            sp = d(st.sampled_from(['aNR', 'a.NR']))
            return {'py': sp, 'js': sp, 'name': ({'id': 'aNR'} if sp == 'aNR' else {'id': 'NR'}), 'ty': 'int'}
        return {'py': 'NR', 'js': 'NR', 'name': {'id': 'NR'}, 'ty': 'int'}
    if k == 1:
        return {'py': 'NF', 'js': 'NF', 'name': {'id': 'NF'}, 'ty': 'int'}
    if k == 2:
        return _intlit(d(st.integers(0, 12)))
    if k == 3:
        return both('len({})', '{}.length', 'int', sfield(ctx))
    if k == 4:
        return _affine(ctx, depth)
    if k == 5:
        m = d(st.integers(2, 3))
        return mk('NR %% %d' % m, 'NR %% %d' % m, 'int')
    if k == 6:
        return both('({} - {})', '({} - {})', 'int', e_int(ctx, depth + 1), e_int(ctx, depth + 1))
    if k == 7:
        if ctx.js:
            return both('(NF + {})', '(NF + {})', 'int', e_int(ctx, depth + 1))
        return both('max(len({}), %d)' % d(st.integers(0, 3)), None, 'int', sfield(ctx))
    if ctx.js:
        return mk('NR * NF', 'NR * NF', 'int')
    return mk('int(NR / %d)' % d(st.integers(1, 3)), None, 'int')


def _intlit(n):
    return mk(str(n), str(n), 'int')


def _affine(ctx, depth):
    d = ctx.draw
    m, c = d(st.integers(1, 3)), d(st.integers(0, 4))
    inner = e_int(ctx, depth + 2)
    return both('({} * %d + %d)' % (m, c), '({} * %d + %d)' % (m, c), 'int', inner)


def like_pattern(ctx):
    return strlit(ctx, ['a%', '%a', '_', '%', 'a_', '%b%', 'a', '', 'x.y', '.*', '1_', '%0', '[x]', 'x,_', '__'])


def e_bool(ctx, depth=0):
    d = ctx.draw
    k = d(st.integers(0, 10 if depth < 2 else 4))
    cmp_ops = ['==', '!=', '<', '<=', '>', '>=']
    if k <= 1:
        op = d(st.sampled_from(cmp_ops))
        jsop = {'==': '==', '!=': '!='}.get(op, op)
        return both('{} %s {}' % op, '{} %s {}' % jsop, 'bool', e_str(ctx, depth + 1), e_str(ctx, depth + 1))
    if k == 2:
        op = d(st.sampled_from(cmp_ops))
        return both('{} %s {}' % op, '{} %s {}' % op, 'bool', e_int(ctx, depth + 1), e_int(ctx, depth + 1))
    if k == 3:
        fn = d(st.sampled_from(['like', 'LIKE'])) if not ctx.js else d(st.sampled_from(['like', 'LIKE']))
        return both(fn + '({}, {})', fn + '({}, {})', 'bool', sfield(ctx), like_pattern(ctx))
    if k == 4:
        return both('{}.startswith({})', '{}.startsWith({})', 'bool', sfield(ctx), strlit(ctx, ['a', '', 'x', '1', ' ']))
    if k == 5:
        return both('({} and {})', '({} && {})', 'bool', e_bool(ctx, depth + 1), e_bool(ctx, depth + 1))
    if k == 6:
        return both('({} or {})', '({} || {})', 'bool', e_bool(ctx, depth + 1), e_bool(ctx, depth + 1))
    if k == 7:
        return both('(not ({}))', '(!({}))', 'bool', e_bool(ctx, depth + 1))
    if k == 8:
        return both('({} in {})', '{1}.includes({0})', 'bool', strlit(ctx, ['a', 'b', ' ', '1', ',']), sfield(ctx))
    if k == 9:
        return both('({} is None)', '({} === null)', 'bool', field(ctx))
    return both('({} is not None)', '({} !== null)', 'bool', field(ctx))


def e_strict_b(ctx):
    """A condition over a raw b-field that raises when the field is None: a WHERE must not be
    evaluated for input records without a join partner."""
    d = ctx.draw
    f = field(ctx, table='b', allow_past_end=False)
    k = d(st.integers(0, 2))
    if k == 0:
        return mk('len(%s) >= 0' % f['py'], '%s.length >= 0' % f['js'], 'bool')
    if k == 1:
        return mk('%s.upper() == %s.upper()' % (f['py'], f['py']), '%s.toUpperCase() == %s.toUpperCase()' % (f['js'], f['js']), 'bool')
    return mk("%s[0:1] != 'zz'" % f['py'], "%s.slice(0, 1) != 'zz'" % f['js'], 'bool')


def e_truthy(ctx):
    """WHERE conditions: not only bools."""
    d = ctx.draw
    k = d(st.integers(0, 7))
    if k <= 3:
        return e_bool(ctx)
    if k == 4:
        return field(ctx)
    if k == 5:
        return both('len({})', '{}.length', 'int', sfield(ctx))
    if k == 6:
        m = d(st.integers(2, 3))
        return mk('NR %% %d' % m, 'NR %% %d' % m, 'int')
    return sfield(ctx)


def e_key(ctx):
    """Totally ordered sort / group key of a single type."""
    d = ctx.draw
    k = d(st.integers(0, 6))
    if k <= 2:
        return sfield(ctx)
    if k == 3:
        return both('len({})', '{}.length', 'int', sfield(ctx))
    if k == 4:
        m = d(st.integers(2, 3))
        return mk('NR %% %d' % m, 'NR %% %d' % m, 'int')
    if k == 5:
        # numeric keys around zero: negatives, 0 and positives together
        t = d(st.sampled_from(['-NR', '(NR % 3) - 1', '1 - NR', 'NR - 2', '(NR % 2) * (2 - NR)']))
        return mk(t, t, 'int')
    if not ctx.js and d(st.integers(0, 2)) == 1:
        # one key expression whose values are tuples of different lengths (version-number style keys)
        f = sfield(ctx)
        return mk(d(st.sampled_from(['tuple(%s)', 'tuple(%s.split(" "))', 'tuple(ord(c) for c in %s)', '(len(%s),) + tuple(%s)'])).replace('%s', f['py']), None, 'tuple')
    return e_str(ctx, 1)


def e_any(ctx, hashable=True):
    d = ctx.draw
    k = d(st.integers(0, 11))
    if k <= 3:
        return field(ctx)
    if k <= 5:
        return e_str(ctx)
    if k == 6:
        return e_int(ctx)
    if k == 7:
        return e_bool(ctx)
    if k == 8:
        return strlit(ctx)
    if k == 9:
        return both('({} if {} else {})', '({1} ? {0} : {2})', 'any', e_str(ctx, 1), e_bool(ctx, 1), e_int(ctx, 1))
    if k == 10:
        if hashable and ctx.js:
            return strlit(ctx)   # a bare None/null item is not common syntax (rbql-js reads `null` as an identifier when naming columns)
        if hashable:
            return mk('None', 'null', 'any')
        if d(st.booleans()):
            # a dict / object literal with string keys (the same text in both languages): commas nested in curly brackets; no round or square bracket
            f1 = field_expr('a', d(st.integers(0, max(ctx.a_width - 1, 0))), 'aN', None)
            f2 = field_expr('a', d(st.integers(0, max(ctx.a_width - 1, 0))), 'aN', None)
            return both("{{'k': {}, 'v': {}}}", "{{'k': {}, 'v': {}}}", 'dict', f1, f2)
        return both('[{}, {}]', '[{}, {}]', 'list', field(ctx), strlit(ctx))
    if ctx.js or not hashable:
        return _intlit(d(st.integers(0, 9)))
    return both('({}, {})', None, 'tuple', field(ctx), e_int(ctx, 1))


def e_list(ctx):
    """Argument of UNNEST."""
    d = ctx.draw
    k = d(st.integers(0, 6))
    if k == 0:
        return mk('[]', '[]', 'list')
    if k == 1:
        return both('[{}, {}]', '[{}, {}]', 'list', field(ctx), strlit(ctx))
    if k == 2:
        return both('{}.split({})', '{}.split({})', 'list', sfield(ctx), strlit(ctx, [',', ' ', 'a', ';']))
    if k == 3:
        return both('[{}, {}, {}]', '[{}, {}, {}]', 'list', strlit(ctx), e_int(ctx, 1), field(ctx))
    if k == 4:
        return both('[{}]', '[{}]', 'list', e_str(ctx, 1))
    if k == 5:
        if ctx.js:
            return both('[{}, {}]', '[{}, {}]', 'list', strlit(ctx), strlit(ctx))
        return mk('list(range(NR % 3))', None, 'list')
    if ctx.js:
        return mk("['b', 'a', 'c']", "['b', 'a', 'c']", 'list')
    return both('list({})', None, 'list', sfield(ctx))


# ---------------------------------------------------------------------------------------------
# tables

def st_names(draw, width):
    return draw(st.lists(st.sampled_from(NAME_POOL), min_size=width, max_size=width, unique=True))


def st_table(draw, max_rows=6, max_width=4, ragged=None, pool=None, none_cells=True, min_rows=0, min_width=0, first_full=False):
    pool = pool or CELL_POOL
    width = draw(st.integers(min_width, max_width))
    if max_width >= 3 and draw(st.integers(0, 11)) == 0:
        width = draw(st.integers(10, 12))      # a1 vs a10 / a11 / a12 must be told apart
        max_width = width
    nrows = draw(st.integers(min_rows, max_rows))
    if ragged is None:
        ragged = draw(st.booleans())
    cell = st.sampled_from(pool)
    if none_cells:
        cell = st.one_of(cell, cell, cell, cell, cell, st.none())
    rows = []
    for i in range(nrows):
        w = width
        if ragged and not (first_full and i == 0):
            w = draw(st.integers(min_width, max_width))
        if width >= 10:
            rows.append([draw(cell) if j < 2 else 'c%d' % (j + 1) for j in range(w)])   # cells that name their own column
        else:
            rows.append(draw(st.lists(cell, min_size=w, max_size=w)))
    return rows, width


def st_join_table(draw, max_rows, max_width, pool, first_full, allow_empty_p=10):
    """Tables for join cases: the first 1-2 columns hold few distinct key values (so that
    multi-match and unmatched keys are common); columns beyond the first may be missing."""
    keypool = ['a', 'b', '', 'a', 'b', 'ab']       # few distinct keys: several B records per key and keys without partner are both common
    if draw(st.integers(0, 7)) == 5:
        # key texts that denote the same number but are different strings: a join compares keys as they are
        keypool = ['7', '7.0', '7.00', '07', ' 7', '7 ', '+7', '7e0', '1.2', '1.20', '1.2.0', '8', '8.0']
    elif draw(st.integers(0, 3)) == 3:
        # composite keys whose textual concatenation coincides although the tuples differ; digits that equal record numbers as text
        keypool = ['a', 'a,b', 'b', ',', '', '1', '2', 'a,', ',b', '3']
    width = draw(st.integers(1, max_width))
    nrows = 0 if draw(st.integers(0, allow_empty_p)) == 0 else draw(st.integers(1, max_rows))
    if nrows == 1 and max_rows >= 3 and draw(st.integers(0, 2)):
        nrows = draw(st.integers(2, max_rows))          # one-record tables cannot show multi-match / unmatched mixtures
    ragged = draw(st.integers(0, 2)) == 0
    zero_ok = ragged and draw(st.integers(0, 5)) == 0      # now and then a table with records without any field (only NR keys remain usable)
    rows = []
    for i in range(nrows):
        w = width
        if ragged and not (first_full and i == 0):
            w = draw(st.integers(0 if zero_ok else 1, width))
        row = []
        for j in range(w):
            if j < 2:
                row.append(draw(st.sampled_from(keypool)) if draw(st.integers(0, 11)) else None)
            else:
                row.append(draw(st.sampled_from(pool)) if draw(st.integers(0, 5)) else None)
        rows.append(row)
    return rows, width


# ---------------------------------------------------------------------------------------------
# joins

JOIN_KINDS = ['JOIN', 'INNER JOIN', 'LEFT JOIN', 'LEFT OUTER JOIN', 'STRICT LEFT JOIN']


def st_join(draw, a_min_width, b_min_width, a_names, b_names, kinds=None, max_pairs=3, allow_nr=True):
    """Key fields are taken from columns every record has (so that no key is missing)."""
    kind = draw(st.sampled_from(kinds or JOIN_KINDS))
    npairs = draw(st.integers(1, max_pairs)) if draw(st.integers(0, 1)) == 0 else 1
    pairs = []
    for _ in range(npairs):
        lk = draw(st.integers(0, 19)) if allow_nr else 1
        if lk == 7 or a_min_width == 0:     # a middle value: Hypothesis over-samples the ends of a range
            l = {'nr': draw(st.sampled_from(['NR', 'aNR', 'a.NR'] if a_names is None else ['NR', 'aNR']))}  # a.NR collides with the attribute scan when a header exists
        else:
            l = {'f': _keyfield(draw, 'a', a_min_width, a_names)}
        rk = draw(st.integers(0, 19)) if allow_nr else 1
        if rk == 7 or b_min_width == 0:
            r = {'nr': draw(st.sampled_from(['bNR', 'b.NR'] if b_names is None else ['bNR']))}
        else:
            r = {'f': _keyfield(draw, 'b', b_min_width, b_names)}
        swap = ('f' in l and 'f' in r) and draw(st.booleans())
        pairs.append({'l': l, 'r': r, 'eq': draw(st.sampled_from(['==', '=', ' == ', ' = ', '== ', ' ='])), 'swap': swap})
    return {'kind': kind, 'pairs': pairs, 'table': draw(st.sampled_from(['b', 'B'])), 'and': draw(st.sampled_from(['and', 'AND', 'And']))}


def _keyfield(draw, table, min_width, names):
    idx = draw(st.integers(0, min_width - 1))
    if idx >= 2 and draw(st.integers(0, 5)) != 3:
        idx = draw(st.integers(0, 1))      # the first two columns hold the key-like values
    spellings = ['aN', 'a[N]']
    if names is not None and idx < len(names):
        spellings += ['a["n"]', "a['n']"]
        if is_attr_name(names[idx]):
            spellings.append('a.n')
    fe = field_expr(table, idx, draw(st.sampled_from(spellings)), names)
    return {'py': fe['py'], 'js': fe['js'], 'idx': idx}


# ---------------------------------------------------------------------------------------------
# rendering

def render_item(it, lang, K=None):
    K = K or (lambda s: s)
    k = it['k']
    if k == 'star':
        return '*'
    if k == 'astar':
        return 'a.*'
    if k == 'bstar':
        return 'b.*'
    if k == 'unnest':
        t = '%s%s(%s)' % (it.get('sp', 'UNNEST'), it.get('gap', ''), it['e'][lang])      # `UNNEST (x)` is ordinary call syntax
    elif k == 'agg':
        if it.get('star'):
            t = '%s(%s)' % (it['sp'], it.get('startext', '*'))
        elif it.get('post') is not None:
            t = '%s(%s, %s)' % (it['sp'], it['e'][lang], it['post'][lang])
        else:
            t = '%s(%s)' % (it['sp'], it['e'][lang])
    else:
        t = it['e'][lang]
    if t is None:
        raise ValueError('item not renderable in %s' % lang)
    if it.get('alias'):
        t += '%s%s%s%s%s' % (it.get('as_lead', ' '), K(it.get('as_kw', 'AS')), it.get('as_sp', ' '), it['alias'], it.get('as_trail', ''))
    return t


def renderable(q, lang):
    try:
        render(q, lang)
        return True
    except (ValueError, TypeError):
        return False


def render_clauses(q, lang, K=None):
    """Returns (head_pieces, [clauses]); the clauses may be permuted freely (C08).
    K(keyword) lets a caller re-spell every keyword it emits."""
    K = K or (lambda s: s)

    def ex(e):
        t = e[lang]
        if t is None:
            raise ValueError('expression not renderable in %s' % lang)
        return t
    clauses = []
    if q['type'] == 'select':
        head = [K('SELECT')]
        if q.get('top') and q['top']['form'] == 'TOP':
            head += [K('TOP'), '%d' % q['top']['n']]
        if q.get('distinct') == 'distinct':
            head += [K('DISTINCT')]
        elif q.get('distinct') == 'count':
            head += [K('DISTINCT'), K('COUNT')]
        head.append(join_items(q['items'], lang, K))
        if q.get('except'):
            clauses.append([K('EXCEPT'), ', '.join(f[lang] for f in q['except'])])
    else:
        head = [K('UPDATE')]
        if q.get('update_a'):
            head += [q.get('a_spelling', 'a'), K('SET')]
        elif q.get('set_kw'):
            head += [K('SET')]
        head.append(', '.join('%s %s %s' % (a['target'][lang], a.get('eq', '='), ex(a['e'])) for a in q['assign']))
    if q.get('join'):
        j = q['join']
        parts = []
        for p in j['pairs']:
            l = p['l']['nr'] if 'nr' in p['l'] else p['l']['f'][lang]
            r = p['r']['nr'] if 'nr' in p['r'] else p['r']['f'][lang]
            if p.get('swap'):
                l, r = r, l
            parts.append('%s%s%s' % (l, p['eq'], r))
        jc = [K(j['kind']), j.get('table', 'b'), K(j.get('on', 'on'))]
        for i, part in enumerate(parts):
            if i:
                jc.append(K(j.get('and', 'and')))
            jc.append(part)
        clauses.append(jc)
    if q.get('where') is not None:
        clauses.append([K('WHERE'), ex(q['where'])])
    if q.get('group') is not None:
        clauses.append([K('GROUP BY'), ', '.join(ex(e) for e in q['group'])])
    if q.get('order') is not None:
        o = q['order']
        oc = [K('ORDER BY'), ', '.join(ex(e) for e in o['keys'])]
        if o.get('desc'):
            oc.append(K('DESC'))
        elif o.get('asc_kw'):
            oc.append(K('ASC'))
        clauses.append(oc)
    if q.get('top') and q['top']['form'] == 'LIMIT':
        clauses.append([K('LIMIT'), '%d' % q['top']['n']])
    return head, clauses


def render(q, lang='py'):
    head, clauses = render_clauses(q, lang)
    return ' '.join(head + [' '.join(c) for c in clauses])


# ---------------------------------------------------------------------------------------------
# query strategies

def st_select_items(ctx, nmin=1, nmax=5, stars=True, unnest=True, aliases=True, hashable=False, header_mode=None):
    """header_mode: None = a header exists or no alias+star conflict matters to the caller."""
    d = ctx.draw
    n = d(st.integers(nmin, nmax))
    items = []
    have_unnest = False
    for _ in range(n):
        k = d(st.integers(0, 11))
        if stars and k == 0:
            items.append({'k': 'star'})
        elif stars and k == 1:
            items.append({'k': 'astar'})
        elif stars and k == 2 and ctx.has_join:
            items.append({'k': 'bstar'})
        elif unnest and k == 3 and not have_unnest:
            have_unnest = True
            items.append({'k': 'unnest', 'e': e_list(ctx), 'sp': d(st.sampled_from(['UNNEST', 'unnest', 'Unnest'] if not ctx.js else ['UNNEST', 'unnest'])),
                          'gap': d(st.sampled_from(['', '', '', ' ', '  ', '\t']))})
        else:
            it = {'k': 'expr', 'e': e_any(ctx, hashable=hashable)}
            if not ctx.js and d(st.integers(0, 14)) == 7:
                it = {'k': 'expr', 'e': e_kwcall(ctx)}
            if aliases and d(st.integers(0, 4)) == 0:
                it['alias'] = d(st.sampled_from(ALIAS_POOL))
                it['as_kw'] = d(st.sampled_from(['AS', 'as']))
            items.append(it)
    if d(st.integers(0, 3)) == 2:
        # blanks around the commas of the select list (` , ` / `,` / `  ,  `)
        for it in items:
            it['sep'] = d(st.sampled_from([', ', ',', ' , ', '  ,  ', ' ,', ',  ']))
    return items


def join_items(items, lang, K=None):
    out = ''
    for i, it in enumerate(items):
        out += render_item(it, lang, K)
        if i + 1 < len(items):
            out += it.get('sep', ', ')
    return out


def has_star(items):
    return any(it['k'] in ('star', 'astar', 'bstar') for it in items)


def has_alias(items):
    return any(it.get('alias') for it in items)


@st.composite
def st_case_select(draw, js=False, join_p=3, order=False, distinct=False, top=False, where_p=2, unnest=True, except_p=8,
                   max_rows=6, max_width=4, kinds=None, force_join=False, dup_heavy=False):
    """SELECT cases for C01/C02/C04/C07. join_p etc. are 1-in-n odds (0 = never)."""
    pool = (JS_SAFE_CELL_POOL if js else CELL_POOL)
    if dup_heavy:
        pool = pool[:6]
    hdr = draw(st.booleans())
    want_join = bool(force_join or (join_p and draw(st.integers(0, join_p - 1)) == 0))
    if force_join or (want_join and draw(st.integers(0, 2)) != 1):
        A, aw = st_join_table(draw, max_rows, max_width, pool, hdr)      # key-like values in the first columns: matches (and multiple matches) are common
    else:
        A, aw = st_table(draw, max_rows=max_rows, max_width=max_width, pool=pool, first_full=hdr)
    a_names = st_names(draw, aw) if (hdr and aw > 0) else None
    join = None
    B, b_names, bw = None, None, 0
    a_min = min([len(r) for r in A] + [aw])
    if want_join:
        B, bw = st_join_table(draw, 7, 3, pool[:8], a_names is not None)
        b_min = min([len(r) for r in B] + [bw])
        b_names = st_names(draw, bw) if a_names is not None else None
        join = st_join(draw, a_min, b_min, a_names, b_names, kinds=kinds)
    elif aw == 0 and hdr:
        a_names = None
    ctx = Ctx(draw, aw, a_names, bw, b_names, has_join=join is not None, js=js)
    q = {'type': 'select'}
    is_except = (join is None and aw > 0 and except_p and draw(st.integers(0, except_p - 1)) == 0)
    want_distinct = None
    if distinct:
        want_distinct = draw(st.sampled_from([None, 'distinct', 'count']))
    if is_except:
        q['items'] = [{'k': 'star'}]
        nex = draw(st.integers(1, min(aw, 3)))
        idxs = draw(st.lists(st.integers(0, aw - 1), min_size=nex, max_size=nex, unique=True))
        if draw(st.integers(0, 3)) == 0:
            # the same column may be named twice (possibly in two spellings) and in any order
            idxs = idxs + [draw(st.sampled_from(idxs))]
            idxs = draw(st.permutations(idxs))
        q['except'] = []
        for i in idxs:
            sps = ['aN', 'a[N]']
            if a_names is not None:
                sps += ['a["n"]', "a['n']"] + (['a.n'] if is_attr_name(a_names[i]) else [])
            q['except'].append(field_expr('a', i, draw(st.sampled_from(sps)), a_names))
    else:
        q['items'] = st_select_items(ctx, unnest=unnest, hashable=want_distinct is not None)
        if a_names is None and has_star(q['items']):
            for it in q['items']:
                it.pop('alias', None)
    if want_distinct:
        if any(it['k'] == 'unnest' and it['e']['ty'] == 'list' for it in q['items']):
            pass
        q['distinct'] = want_distinct
    q['join'] = join
    if where_p and draw(st.integers(0, where_p - 1)) == 0:
        q['where'] = e_truthy(ctx)
    if join is not None and bw > 0 and draw(st.integers(0, 7)) == 0:
        q['where'] = e_strict_b(ctx)
    if order and draw(st.integers(0, 3)) != 0:
        nk = draw(st.integers(1, 2))
        q['order'] = {'keys': [e_key(ctx) for _ in range(nk)], 'desc': draw(st.booleans()), 'asc_kw': draw(st.booleans())}
    if top and draw(st.integers(0, 2)) != 0:
        q['top'] = {'n': draw(st.integers(0, len(A) + 1)), 'form': draw(st.sampled_from(['TOP', 'LIMIT']))}
    return {'A': A, 'B': B, 'a_names': a_names, 'b_names': b_names, 'q': q}


@st.composite
def st_case_update(draw, js=False, join_p=4, multi_match=False):
    pool = (JS_SAFE_CELL_POOL if js else CELL_POOL)
    hdr = draw(st.booleans())
    want_join = bool(join_p) and draw(st.integers(0, join_p - 1)) == 0
    if want_join:
        A, aw = st_join_table(draw, 6, 4, pool, hdr)
    else:
        A, aw = st_table(draw, max_rows=6, max_width=4, pool=pool, min_width=1, min_rows=0, first_full=hdr)
    a_names = st_names(draw, aw) if hdr else None
    a_min = min([len(r) for r in A] + [aw])
    join, B, b_names, bw = None, None, None, 0
    if want_join and a_min > 0:
        B, bw = st_join_table(draw, 4, 3, pool[:8], a_names is not None)
        b_min = min([len(r) for r in B] + [bw])
        if not multi_match:
            # at most one match per key: make the B key column unique by dropping duplicates
            pass
        b_names = st_names(draw, bw) if a_names is not None else None
        join = st_join(draw, a_min, b_min, a_names, b_names, kinds=['JOIN', 'INNER JOIN', 'LEFT JOIN', 'LEFT OUTER JOIN'], max_pairs=1)
        if not multi_match and 'f' in join['pairs'][0]['r']:
            ki = join['pairs'][0]['r']['f']['idx']
            seen, nb = set(), []
            for r in B:
                if r[ki] in seen:
                    continue
                seen.add(r[ki])
                nb.append(r)
            B = nb
    ctx = Ctx(draw, aw, a_names, bw, b_names, has_join=join is not None, js=js)
    n = draw(st.integers(1, 3))
    # targets: any column of the widest record (on a shorter qualifying record the assignment must fail)
    assign = []
    rotation = None
    if a_min >= 2 and draw(st.integers(0, 2)) == 0:
        # swap / rotation: every right-hand side reads another assigned field
        n = draw(st.integers(2, min(3, a_min)))
        rotation = draw(st.permutations(list(range(a_min))))[:n]
    for ai in range(n):
        hi = aw - 1
        idx = draw(st.integers(0, hi)) if rotation is None else rotation[ai]
        sps = ['aN', 'a[N]']
        if a_names is not None:
            sps += ['a["n"]', "a['n']"] + (['a.n'] if is_attr_name(a_names[idx]) else [])
        tgt = field_expr('a', idx, draw(st.sampled_from(sps)), a_names)
        k = draw(st.integers(0, 6))
        if rotation is not None:
            rhs = field(ctx, table='a', idx=rotation[(ai + 1) % n])
            if draw(st.integers(0, 3)) == 0:
                rhs = both('{} + {}', '{} + {}', 'str', {'py': "(%s or '')" % rhs['py'], 'js': "(%s || '')" % rhs['js'], 'name': rhs['name']}, strlit(ctx))
                rhs['name'] = {'f': ['a', rotation[(ai + 1) % n]]}
        elif k <= 1:
            rhs = field(ctx, table='a', allow_past_end=False)      # reads another (possibly assigned) field
        elif k == 2:
            rhs = both('{} + {}', '{} + {}', 'str', sfield(ctx, table='a'), strlit(ctx))
        elif k == 3:
            rhs = {'py': 'NU', 'js': 'NU', 'name': None, 'ty': 'int'}
        elif k == 4:
            rhs = both('str(NU) + {} + str(NR)', 'String(NU) + {} + String(NR)', 'str', strlit(ctx))
        elif k == 5 and join is not None:
            rhs = field(ctx, table='b')
        elif k == 6 and not js and draw(st.booleans()):
            rhs = e_kwcall(ctx)
        else:
            rhs = e_any(ctx)
        assign.append({'target': tgt, 'idx': idx, 'e': rhs, 'eq': draw(st.sampled_from(['=', ' =', '=  ']))})
    q = {'type': 'update', 'assign': assign, 'join': join}
    form = draw(st.integers(0, 2))
    q['set_kw'] = form == 1
    q['update_a'] = form == 2
    if draw(st.integers(0, 2)) != 0:
        q['where'] = e_truthy(ctx)
    if join is not None and bw > 0 and draw(st.integers(0, 2)) == 0:
        q['where'] = e_strict_b(ctx)
    elif join is not None and bw > 0 and draw(st.integers(0, 3)) == 1:
        # a top-level `or` (no outer parentheses): the condition is one unit, whatever surrounds it in the generated code
        pyw, jsw = draw(st.sampled_from([("b1 == 'a' or NR > 1", "b1 == 'a' || NR > 1"), ("b1 == 'zz' or a1 == a1", "b1 == 'zz' || a1 == a1"), ("NR % 2 == 0 or b1 == 'b'", "NR % 2 == 0 || b1 == 'b'")]
                                             + ([("b1 if False else NR > 0", None)] if not js else [])))
        q['where'] = mk(pyw, jsw, 'bool')
    return {'A': A, 'B': B, 'a_names': a_names, 'b_names': b_names, 'q': q}


# ---------------------------------------------------------------------------------------------
# typed cells (list / pandas / sqlite tables hold ints, floats, bools, None - not only strings)

TYPED_POOL = [0, 1, 2, -1, 10, 1.5, 0.0, True, False, None, '', 'a', 'b', '1', '0']
TYPED_POOL_JS = [0, 1, 2, -1, 10, None, '', 'a', 'b', '1', '0']


@st.composite
def st_case_typed(draw, js=False, order=True, distinct=True, top=True):
    """SELECT cases over tables with typed cells; expressions are restricted to forms that are
    total on every cell type (field, star, identity / None tests, NR arithmetic)."""
    pool = TYPED_POOL_JS if js else TYPED_POOL
    width = draw(st.integers(1, 3))
    ragged = draw(st.booleans())
    A = []
    for _ in range(draw(st.integers(0, 6))):
        w = draw(st.integers(0, width)) if ragged else width
        A.append([draw(st.sampled_from(pool)) for _ in range(w)])
    ctx = Ctx(draw, width, None, js=js)

    def f():
        return field(ctx, table='a')

    def cond():
        k = draw(st.integers(0, 5))
        if k == 0:
            return f()
        if k == 1:
            return both('({} is None)', '({} === null)', 'bool', f())
        if k == 2:
            return both('({} == {})', '({} === {})', 'bool', f(), f()) if js else both('({} == {})', None, 'bool', f(), f())
        if k == 3:
            m = draw(st.integers(2, 3))
            return mk('NR %% %d' % m, 'NR %% %d' % m, 'int')
        if k == 4:
            return both('(not {})', '(!{})', 'bool', f())
        return both('({} is not None and NR > 1)', '({} !== null && NR > 1)', 'bool', f())
    want_distinct = draw(st.sampled_from([None, None, 'distinct', 'count'])) if distinct else None
    items = []
    for _ in range(draw(st.integers(1, 4))):
        k = draw(st.integers(0, 7))
        if k == 0:
            items.append({'k': 'star'})
        elif k == 1:
            items.append({'k': 'astar'})
        elif k == 2:
            items.append({'k': 'expr', 'e': {'py': 'NR', 'js': 'NR', 'name': {'id': 'NR'}, 'ty': 'int'}})
        elif k == 3:
            items.append({'k': 'expr', 'e': cond()})
        elif k == 4 and want_distinct is None and not any(it['k'] == 'unnest' for it in items):
            items.append({'k': 'unnest', 'e': both('[{}, {}]', '[{}, {}]', 'list', f(), f()), 'sp': 'UNNEST'})
        else:
            items.append({'k': 'expr', 'e': f()})
    q = {'type': 'select', 'items': items, 'join': None}
    if want_distinct:
        q['distinct'] = want_distinct
    if draw(st.booleans()):
        q['where'] = cond()
    if order and draw(st.integers(0, 2)) == 0:
        q['order'] = {'keys': [draw(st.sampled_from([mk('NR % 2', 'NR % 2', 'int'), mk('-NR', '-NR', 'int'), mk('NF', 'NF', 'int')]))], 'desc': draw(st.booleans()), 'asc_kw': False}
    if top and draw(st.integers(0, 2)) == 0:
        q['top'] = {'n': draw(st.integers(0, len(A) + 1)), 'form': draw(st.sampled_from(['TOP', 'LIMIT']))}
    return {'A': A, 'B': None, 'a_names': None, 'b_names': None, 'q': q, 'typed': True}
