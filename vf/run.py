# python -m vf.run <ID> [--tier quick|thorough] [--replay FILE]
# exit 0 = held on everything explored; 1 = VIOLATION line(s) printed; 2 = harness error.
from __future__ import annotations

import argparse
import importlib
import json
import os
import shutil
import sys
import tempfile
import time
import warnings

warnings.simplefilter('ignore')


def main():
    ap = argparse.ArgumentParser()
    ap.add_argument('prop')
    ap.add_argument('--tier', default=os.environ.get('VERIF_TIER') or 'quick', choices=['quick', 'thorough'])
    ap.add_argument('--replay', default=None)
    args = ap.parse_args()
    prop = args.prop.upper()
    try:
        seed = int(os.environ.get('VERIF_SEED', '1') or '1')
    except ValueError:
        seed = 1
    os.environ['PYTHONHASHSEED'] = os.environ.get('PYTHONHASHSEED', '0')
    home = tempfile.mkdtemp(prefix='vf_home_')
    os.environ['HOME'] = home
    os.environ['PYTHONWARNINGS'] = 'ignore'
    rc = 2
    try:
        rc = _main(prop, args.tier, seed, args.replay)
    except BaseException as e:   # anything unexpected is a harness error (exit 2), never a violation
        import traceback
        print('HARNESS-ERROR property=%s unexpected %r' % (prop, e))
        traceback.print_exc()
        rc = 2
    finally:
        shutil.rmtree(home, ignore_errors=True)
    sys.stdout.flush()
    sys.exit(rc)


def _main(prop, tier, seed, replay_path):
    from . import common
    try:
        common.load_rbql()
        mod = importlib.import_module('vf.checks.%s' % prop.lower())
    except common.HarnessError as e:
        print('HARNESS-ERROR property=%s %s' % (prop, e))
        return common.EXIT_HARNESS

    if replay_path is not None:
        with open(replay_path) as f:
            blob = json.load(f)
        failure = blob['failure']
        try:
            mod.replay(common.unjsonable(failure['case']), failure.get('clause'))
        except common.Violation as v:
            print('replay: clause=%s detail=%s' % (v.clause, json.dumps(common.jsonable(v.detail))[:2000]))
            print('VIOLATION property=%s replay=%s' % (prop, replay_path))
            return common.EXIT_VIOLATION
        except common.HarnessError as e:
            print('HARNESS-ERROR property=%s %s' % (prop, e))
            return common.EXIT_HARNESS
        print('replay passes: property=%s replay=%s' % (prop, replay_path))
        return common.EXIT_OK

    t0 = time.monotonic()
    plan = mod.plan(tier)
    try:
        parts = common.run_sharded(mod.__name__, plan['stages'], tier, seed, plan.get('timeout_s', 1800))
    except common.HarnessError as e:
        print('HARNESS-ERROR property=%s %s' % (prop, e))
        return common.EXIT_HARNESS
    merged = common.merge_stats([p['stats'] for p in parts])
    failures = []
    seen = set()
    for p in parts:
        for f in p.get('failures', []):
            key = (f.get('leg'), f['clause'])
            if key in seen:
                continue
            seen.add(key)
            failures.append(f)
    extra = {}
    for p in parts:
        for k, v in (p.get('extra') or {}).items():
            if k == 'exhaustive':
                continue
            if isinstance(v, bool):
                extra[k] = extra.get(k, True) and v
            elif isinstance(v, (int, float)):
                extra[k] = max(extra.get(k, 0), v)
            else:
                extra[k] = v
    # `exhaustive` is true only if every leg enumerated its (bounded) domain completely; the legs that did are listed
    stages = sorted(set(p.get('stage') for p in parts))
    ex_legs = [st for st in stages if all((p.get('extra') or {}).get('exhaustive') is True for p in parts if p.get('stage') == st)]
    extra['exhaustive'] = len(ex_legs) == len(stages) and not failures
    extra['exhaustive_legs'] = ex_legs
    extra['sampled_legs'] = [st for st in stages if st not in ex_legs]
    # known findings: probe each listed input against the real code
    known_lines = []
    try:
        for k in common.known_for(prop):
            still = mod.probe_known(k)
            if still:
                known_lines.append('KNOWN-FINDING: property=%s %s: %s' % (prop, k['id'], k['what']))
            else:
                merged['notes'].append('known finding %s no longer reproduces' % k['id'])
    except common.HarnessError as e:
        print('HARNESS-ERROR property=%s %s' % (prop, e))
        return common.EXIT_HARNESS
    wall = time.monotonic() - t0
    nviol = len(failures)
    extra['known_findings_reproduced'] = [l.split(' ', 2)[2] for l in known_lines]
    common.write_evidence(prop, tier, seed, mod.LEVEL, merged, mod.RULE, wall, nviol, mod.ASSUMPTIONS, extra)
    for l in known_lines:
        print(l)
    print('property=%s tier=%s seed=%d evaluations=%d distinct_nontrivial=%d excluded_known=%d wall_s=%.1f' % (
        prop, tier, seed, merged['evaluations'], len(merged['nontrivial']) + merged['nontrivial_counted'], merged['excluded_known'], wall))
    if merged['classes']:
        print('classes: ' + ', '.join('%s=%d' % kv for kv in sorted(merged['classes'].items())))
    if not failures:
        print('OK property=%s' % prop)
        return common.EXIT_OK
    for f in failures:
        path = common.write_replay(prop, f)
        print('violation: leg=%s clause=%s detail=%s' % (f.get('leg'), f['clause'], json.dumps(f.get('detail'))[:1500]))
        print('VIOLATION property=%s replay=%s' % (prop, os.path.relpath(path, common.VERIF_ROOT)))
    return common.EXIT_VIOLATION


if __name__ == '__main__':
    main()
