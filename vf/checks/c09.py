# C09 - Column-name variables bind to the right column; header line is never data.
from __future__ import annotations

import copy
import io
import keyword
import os
import re
import sqlite3
import subprocess
import sys

from hypothesis import strategies as st

from ..common import Stats, run_hypothesis, Violation, REPO
from .. import engine, qgen, refcsv

from rbql import rbql_sqlite, rbql_csv  # noqa: E402

PROP = 'C09'
LEVEL = 'exploration'
RULE = ('Hypothesis-generated headers of 1-6 distinct names over printable ASCII (both quote characters, backslash, brackets, braces, #, %, spaces), TAB, LF, CR, '
        'non-ASCII BMP and astral characters (excluded as the quantifier says: names containing an a.ident / b.ident token; stated preconditions: no NUL, no lone '
        'surrogates, attribute form only for identifiers that are not Python keywords / NR) x every column position x both quote styles x spellings a["name"], '
        'a[\'name\'], a.name and the bare name (direct mode), used as SELECT item, EXCEPT column, UPDATE target and JOIN key, through {list + column-name list, CSV file '
        '(query_csv), pandas dataframe, sqlite table}; the name is written with the harness\'s own minimal Python escaping. WITH matrix: modifier {none, header, '
        'noheader} (random letter case) x caller flag {True, False} for query_csv and the CLI, with a join file. Oracle = position lookup: the selected value equals '
        'the cell at that header position for every record, output record count == number of data lines, NR of the first record is 1, the header line appears as data iff '
        'no header is in force, and the effective flag (modifier else caller) applies to the join table too. Non-trivial = a name containing a quote, backslash, '
        'bracket, whitespace or non-ASCII character (or a WITH modifier that overrides the caller flag); distinct = case digests.'
        ' Later additions: columns literally called NR / NF addressed as a.NR, sqlite GENERATED columns, variables used only inside an f-string, non-ASCII and comma-containing names in EXCEPT / UPDATE / JOIN keys.')
ASSUMPTIONS = ['sqlite column names are non-empty and distinct case-insensitively', 'CSV headers with line breaks use the quoted_rfc policy',
               'direct-mode names avoid Python builtins and the engine\'s own identifiers']

SPECIAL = ['"', "'", '\\', '[', ']', '{', '}', '(', ')', '#', '%', ' ', '\t', '\n', '\r', ',', ';', ':', '=', '*', '.', '-', '+', '!', '?', '@', '$', '^', '&', '|', '~', '`', '<', '>', '/']
PLAIN = list('abcxyzKV019_')
NONASCII = ['é', 'ж', '€', '名', '𝄞', '😀', 'ß', 'e\u0301', '\u212b', '\u2126', 'a\u030a']      # incl. decomposed / compatibility forms: names are compared as they are
ATTR_TOKEN = re.compile(r'(?:^|[^_a-zA-Z0-9])[ab]\.[_a-zA-Z]')
DIRECT_POOL = ['u_name', 'u_age', 'City', 'x1', 'col_a', 'Zip', '_id', 'u_v', 'weight_kg', 'Q', 'a1', 'a2', 'a3', 'b1', 'a10', 'aNR_', 'NR_']


def plan(tier):
    return {'stages': [('shard_names', 12), ('shard_with', 4)], 'timeout_s': 3000}


@st.composite
def st_name(draw):
    k = draw(st.integers(0, 5))
    if k == 0:
        n = ''.join(draw(st.lists(st.sampled_from(PLAIN), min_size=1, max_size=6)))
    elif k == 1:
        n = draw(st.sampled_from(['name', 'Object id', '9.12341234', '%$ !! 10 20', 'Vehicle type', 'select', 'where', 'a1', 'NR', 'NR', 'NF', 'b2', 'x as y', 'count(*)', 'a[1]', 'None', 'if', 'lambda',
                                  'col1', '___RBQL_STRING_LITERAL0___', 'it\'s', 'say "hi"', 'back\\slash', 'tab\there', 'two\nlines', 'cr\rhere', '[brackets]', '{x}', 'ends with \\', '\\"', "\\'", '\\n']))
    else:
        n = ''.join(draw(st.lists(st.one_of(st.sampled_from(SPECIAL), st.sampled_from(PLAIN), st.sampled_from(PLAIN), st.sampled_from(NONASCII)), min_size=1, max_size=7)))
    return n


@st.composite
def st_names_case(draw):
    w = draw(st.integers(1, 6))
    names = []
    low = set()
    tries = 0
    while len(names) < w and tries < 40:
        tries += 1
        n = draw(st_name())
        if n.lower() in low or ATTR_TOKEN.search(n) or n == '':
            continue
        names.append(n)
        low.add(n.lower())
    near = draw(st.integers(0, 3)) == 0
    if near:
        # names that differ only by surrounding white space, letter case, or by being a prefix / suffix of one another
        base = draw(st.sampled_from(['name', 'id', 'Key', 'x1', 'val_2']))
        variants = [' ' + base, base + ' ', '\t' + base, base.upper(), base.lower(), base.title(), base + '_', '_' + base, base + base, base[:-1], base + '1', ' ' + base + ' ', base.swapcase()]
        picked = draw(st.lists(st.sampled_from(variants), min_size=1, max_size=4, unique=True))
        names = [base] + [v for v in picked if v != base]
        names = draw(st.permutations(names))
        low = set()
        names = [n for n in names if not (n.lower() in low or low.add(n.lower()))] if draw(st.booleans()) else list(names)
    w = len(names)
    nrows = draw(st.integers(0, 4))
    rows = [['r%dc%d' % (i + 1, j + 1) for j in range(w)] for i in range(nrows)]
    pos = draw(st.integers(0, w - 1))
    backend = draw(st.sampled_from(['list', 'list', 'csv', 'csv', 'pandas', 'sqlite']))
    if near and len(set(n.lower() for n in names)) != len(names) and backend == 'sqlite':
        backend = 'list'    # sqlite column names must be distinct case-insensitively
    spell = draw(st.sampled_from(['a["n"]', "a['n']", 'a.n']))
    # a column literally called NR / NF is addressed by a.NR / a.NF like any other (the header binding wins over the record counter)
    if spell == 'a.n' and not (qgen.is_attr_name(names[pos]) or names[pos] in ('NR', 'NF')):
        spell = draw(st.sampled_from(['a["n"]', "a['n']"]))
    use = draw(st.sampled_from(['select', 'select', 'except', 'update', 'join', 'where']))
    return {'kind': 'names', 'names': names, 'rows': rows, 'pos': pos, 'backend': backend, 'spell': spell, 'use': use}


@st.composite
def st_direct_case(draw):
    w = draw(st.integers(1, 5))
    names = draw(st.lists(st.sampled_from(DIRECT_POOL), min_size=w, max_size=w, unique=True))
    nrows = draw(st.integers(0, 4))
    rows = [['r%dc%d' % (i + 1, j + 1) for j in range(w)] for i in range(nrows)]
    return {'kind': 'direct', 'names': names, 'rows': rows, 'pos': draw(st.integers(0, w - 1)), 'backend': draw(st.sampled_from(['list', 'pandas']))}


def var_text(prefix, name, spell):
    if spell == 'a.n':
        return '%s.%s' % (prefix, name)
    q = '"' if spell == 'a["n"]' else "'"
    return '%s[%s]' % (prefix, qgen.py_str(name, q))


def run_backend(backend, query, names, rows, scratch, jnames=None, jrows=None, normalize=True, generated=None):
    """Returns dict(out=[[str...]], header=[...]|None, error=...)."""
    rbql = engine.rbql
    if backend == 'list':
        r = engine.run_table(query, copy.deepcopy(rows), copy.deepcopy(jrows), list(names), list(jnames) if jnames is not None else None, normalize=normalize)
        return {'out': r['out'], 'header': r['header'], 'error': r['error']}
    if backend == 'pandas':
        import pandas
        df = pandas.DataFrame(copy.deepcopy(rows), columns=list(names))
        dfb = pandas.DataFrame(copy.deepcopy(jrows), columns=list(jnames)) if jrows is not None else None
        try:
            res = rbql.query_pandas_dataframe(query, df, [], dfb, normalize_column_names=normalize)
        except Exception as e:
            return {'out': None, 'header': None, 'error': engine.err_info(e)}
        hdr = None if isinstance(res.columns, pandas.RangeIndex) else list(res.columns)
        return {'out': res.values.tolist(), 'header': hdr, 'error': None}
    if backend == 'csv':
        policy = 'quoted_rfc' if any('\n' in n or '\r' in n for n in list(names) + list(jnames or [])) else 'quoted'
        src, jn, dst = os.path.join(scratch, 'c09_in.csv'), os.path.join(scratch, 'c09_join.csv'), os.path.join(scratch, 'c09_out.csv')
        with open(src, 'w', encoding='utf-8', newline='') as f:
            f.write(refcsv.write_table([list(names)] + rows, ',', policy))
        if jrows is not None:
            with open(jn, 'w', encoding='utf-8', newline='') as f:
                f.write(refcsv.write_table([list(jnames)] + jrows, ',', policy))
            query = query.replace(' join b on ', ' join %s on ' % jn)
        try:
            rbql.query_csv(query, src, ',', policy, dst, ',', 'quoted_rfc', 'utf-8', [], True)
        except Exception as e:
            return {'out': None, 'header': None, 'error': engine.err_info(e)}
        with open(dst, 'rb') as f:
            text = f.read().decode('utf-8')
        recs = refcsv.read_table(text, ',', 'quoted_rfc')['records']
        return {'out': recs[1:], 'header': recs[0] if recs else None, 'error': None}
    if backend == 'sqlite':
        dbp = os.path.join(scratch, 'c09.sqlite')
        if os.path.exists(dbp):
            os.remove(dbp)
        con = sqlite3.connect(dbp)
        qi = lambda n: '"' + n.replace('"', '""') + '"'
        if generated is None:
            con.execute('create table t (%s)' % ', '.join(qi(n) + ' text' for n in names))
            if rows:
                con.executemany('insert into t values (%s)' % ','.join('?' * len(names)), rows)
        else:
            # column `gi` is a generated (computed) column: a copy of column `src`; `SELECT *` returns it like any other column
            gi, src = generated
            con.execute('create table t (%s)' % ', '.join(qi(n) + (' text' if j != gi else ' text generated always as (%s) virtual' % qi(names[src])) for j, n in enumerate(names)))
            if rows:
                con.executemany('insert into t (%s) values (%s)' % (', '.join(qi(n) for j, n in enumerate(names) if j != gi), ','.join('?' * (len(names) - 1))),
                                [[c for j, c in enumerate(r) if j != gi] for r in rows])
        if jrows is not None:
            con.execute('create table b (%s)' % ', '.join(qi(n) + ' text' for n in jnames))
            if jrows:
                con.executemany('insert into b values (%s)' % ','.join('?' * len(jnames)), jrows)
        con.commit()
        dst = os.path.join(scratch, 'c09_sql_out.csv')
        try:
            rbql_sqlite.query_sqlite_to_csv(query, con, 't', dst, ',', 'quoted_rfc', 'utf-8', [])
        except Exception as e:
            return {'out': None, 'header': None, 'error': engine.err_info(e)}
        finally:
            con.close()
        with open(dst, 'rb') as f:
            text = f.read().decode('utf-8')
        recs = refcsv.read_table(text, ',', 'quoted_rfc')['records']
        return {'out': recs[1:], 'header': recs[0] if recs else None, 'error': None}
    raise ValueError(backend)


def norm_header(backend, names):
    if backend == 'csv':
        return [n.replace('\r\n', '\n').replace('\r', '\n') for n in names]
    return list(names)


def check_names(case, scratch, stats=None):
    names, rows, pos, backend = case['names'], case['rows'], case['pos'], case['backend']
    if backend == 'sqlite' and any('\x00' in n for n in names):
        return
    if backend == 'csv':
        names = norm_header('csv', names)
        if len(set(names)) != len(names) or any(n.startswith('\ufeff') for n in names[:1]):
            return
    name = names[pos]
    use = case['use']
    if use == 'except' and len(names) == 1 and backend in ('csv', 'sqlite'):
        use = 'select'   # a zero-column CSV record is an empty line, indistinguishable from one empty field
    if any('___RBQL_STRING_LITERAL' in n for n in names):
        if stats is not None:
            stats.excluded_known += 1
        return   # known finding D16: a column named like the engine's internal literal placeholder
    v = var_text('a', name, case['spell'])
    jnames = jrows = None
    generated = None
    if backend == 'sqlite' and len(names) >= 2 and use in ('select', 'where', 'except') and (len(name) + len(rows)) % 2 == 0:
        gi = (pos + 1) % len(names)
        generated = (gi, pos)
        rows = [[(r[pos] if j == gi else c) for j, c in enumerate(r)] for r in rows]
    if use == 'select' and case['spell'] == 'a.n' and (len(name) + len(rows)) % 3 == 0:
        # the variable occurs only inside an f-string replacement field
        query = "select f'{%s}', NR" % v
        exp = [[r[pos], i + 1] for i, r in enumerate(rows)]
        exp_header = ['col1', 'NR']
    elif use == 'select':
        query = 'select %s, NR' % v
        exp = [[r[pos], i + 1] for i, r in enumerate(rows)]
        exp_header = [name, 'NR']
    elif use == 'where':
        query = "select NR where %s == 'r2c%d'" % (v, pos + 1)
        exp = [[2]] if len(rows) >= 2 else []
        exp_header = ['NR']
    elif use == 'except':
        query = 'select * except %s' % v
        exp = [[c for j, c in enumerate(r) if j != pos] for r in rows]
        exp_header = [n for j, n in enumerate(names) if j != pos]
    elif use == 'update':
        query = "update %s = 'Z' + str(NR)" % v
        exp = [[('Z%d' % (i + 1)) if j == pos else c for j, c in enumerate(r)] for i, r in enumerate(rows)]
        exp_header = list(names)
    else:
        # join key on both sides: B has the same header names shifted, keyed by the chosen column
        jnames = list(names)
        jrows = [list(r) for r in rows[::-1]]
        vb = var_text('b', name, case['spell'])
        query = 'select NR, bNR join b on %s == %s' % (v, vb)
        n = len(rows)
        exp = [[i + 1, n - i] for i in range(n)]
        exp_header = ['NR', 'bNR']
    r = run_backend(backend, query, names, rows, scratch, jnames, jrows, generated=generated)
    hostile = any(ch in name for ch in '"\'\\[]{} \t\n\r') or not name.isascii()
    if stats is not None:
        stats.case(case, hostile, ['backend-' + backend, 'use-' + use, 'spell-' + case['spell']] + (['hostile-name'] if hostile else []),
                   sample={'query': query, 'names': names, 'backend': backend, 'out': (r['out'] or [])[:3], 'error': r['error']})
    ctx = {'query': query, 'names': names, 'position': pos, 'backend': backend, 'rows': rows}
    if r['error'] is not None:
        raise Violation('name-variable-fails:' + r['error']['cls'], dict(ctx, error=r['error']))
    got = r['out']
    if backend in ('csv', 'sqlite'):
        exp = [[str(c) for c in rec] for rec in exp]
    if got != exp:
        raise Violation('name-variable-wrong-column', dict(ctx, got=got[:5], expected=exp[:5]))
    if len(got) != len(exp):
        raise Violation('record-count', dict(ctx, got=len(got), expected=len(exp)))
    if backend in ('csv', 'sqlite'):
        exp_header = norm_header('csv', exp_header)    # the output passes through a quoted_rfc CSV file: CR / CRLF in a field read back as LF (C10)
    if r['header'] is not None and [str(h) for h in r['header']] != exp_header and not (exp_header == [] and not r['header']):
        raise Violation('header-of-named-column', dict(ctx, got=r['header'], expected=exp_header))


def check_direct(case, scratch, stats=None):
    names, rows, pos = case['names'], case['rows'], case['pos']
    query = 'select %s, NR' % names[pos]
    r = run_backend(case['backend'], query, names, rows, scratch, normalize=False)
    if stats is not None:
        stats.case(case, False, ['direct-mode', 'backend-' + case['backend']], sample={'query': query, 'names': names})
    exp = [[row[pos], i + 1] for i, row in enumerate(rows)]
    if r['error'] is not None or r['out'] != exp:
        raise Violation('direct-mode-name', {'query': query, 'names': names, 'got': r['out'], 'expected': exp, 'error': r['error']})


# ---------------------------------------------------------------------------------------------
# WITH (header) / WITH (noheader) x caller flag

@st.composite
def st_with_case(draw):
    n = draw(st.integers(1, 4))
    rows = [['k%d' % i, 'v%d' % i] for i in range(n)]
    return {'kind': 'with', 'n': n, 'flag': draw(st.booleans()), 'modifier': draw(st.sampled_from([None, 'header', 'noheader', 'headers', 'noheaders'])),
            'with_kw': draw(st.sampled_from(['WITH', 'with', 'With', 'wItH'])), 'space': draw(st.sampled_from([' ', '', '  '])), 'join': draw(st.booleans()), 'cli': draw(st.integers(0, 5)) == 0,
            'probe': draw(st.sampled_from(['count', 'attr', 'battr']))}


def check_with(case, scratch, stats=None):
    rbql = engine.rbql
    n = case['n']
    src, jn, dst = os.path.join(scratch, 'w_in.csv'), os.path.join(scratch, 'w_join.csv'), os.path.join(scratch, 'w_out.csv')
    lines = [['key', 'val']] + [['k%d' % i, 'v%d' % i] for i in range(n)]
    jlines = [['key', 'jval']] + [['k%d' % i, 'j%d' % i] for i in range(n)] + [['key', 'HEADER-AS-DATA']]
    with open(src, 'w') as f:
        f.write(refcsv.write_table(lines, ',', 'quoted'))
    with open(jn, 'w') as f:
        f.write(refcsv.write_table(jlines[:-1], ',', 'quoted'))
    eff = case['flag'] if case['modifier'] is None else case['modifier'].startswith('header')
    mod = '' if case['modifier'] is None else ' %s%s(%s)' % (case['with_kw'], case['space'], case['modifier'])
    probe = case['probe']
    if case['join']:
        if probe == 'battr':
            q = 'select NR, a1, b.jval join %s on a1 == b1' % jn
        else:
            q = 'select NR, a1, b2 join %s on a1 == b1' % jn
    else:
        if probe == 'battr':
            probe = 'attr'
        q = 'select NR, a1, a.val' if probe == 'attr' else 'select NR, a1, a2'
    q += mod
    warnings, err, out_text = [], None, None
    if case['cli']:
        env = dict(os.environ, PYTHONPATH=os.path.join(REPO, 'rbql-py'), PYTHONWARNINGS='ignore')
        cmd = [sys.executable, '-m', 'rbql', '--input', src, '--delim', ',', '--policy', 'quoted', '--query', q, '--output', dst] + (['--with-headers'] if case['flag'] else [])
        p = subprocess.run(cmd, capture_output=True, text=True, env=env, cwd=scratch)
        if p.returncode != 0:
            err = {'cls': 'cli', 'msg': p.stderr[-300:]}
    else:
        try:
            rbql.query_csv(q, src, ',', 'quoted', dst, ',', 'quoted', 'utf-8', warnings, case['flag'])
        except Exception as e:
            err = engine.err_info(e)
    overrides = case['modifier'] is not None and (case['modifier'].startswith('header') != case['flag'])
    if stats is not None:
        stats.case(case, overrides, ['with', 'with-modifier-%s' % case['modifier'], 'flag-%s' % case['flag'], 'with-cli' if case['cli'] else 'with-library', 'with-join' if case['join'] else 'with-nojoin'] + (['modifier-overrides-flag'] if overrides else []),
                   sample={'query': q, 'caller_flag': case['flag'], 'effective_header': eff, 'error': err})
    ctx = {'query': q, 'caller_flag': case['flag'], 'effective_header': eff, 'cli': case['cli'], 'error': err}
    uses_names = (probe == 'battr') if case['join'] else (probe == 'attr')
    if uses_names and not eff:
        if err is None:
            raise Violation('name-variable-resolves-without-header', ctx)
        return
    if err is not None:
        raise Violation('with-matrix-error', ctx)
    with open(dst) as f:
        recs = refcsv.read_table(f.read(), ',', 'quoted')['records']
    data = lines[1:] if eff else lines
    jdata = {r[0]: r[1] for r in (jlines[1:-1] if eff else jlines[:-1])}
    exp = []
    if eff:
        exp.append(['NR', 'key', 'jval' if (case['join'] and True) else 'val'] if False else None)
    body = []
    nr = 0
    for r in data:
        nr += 1
        if case['join']:
            if r[0] in jdata:
                body.append([str(nr), r[0], jdata[r[0]]])
        else:
            body.append([str(nr), r[0], r[1]])
    got_body = recs[1:] if eff else recs
    if got_body != body:
        raise Violation('header-line-handling', dict(ctx, got=recs, expected_body=body))
    if eff:
        if not recs or recs[0][:2] != ['NR', 'key']:
            raise Violation('output-header-line', dict(ctx, got=recs[:1]))
    if body and body[0][0] != '1':
        raise Violation('first-NR', dict(ctx, got=body[0]))


def check_any(case, scratch, stats=None):
    if case['kind'] == 'names':
        check_names(case, scratch, stats)
    elif case['kind'] == 'direct':
        check_direct(case, scratch, stats)
    else:
        check_with(case, scratch, stats)


def shard_names(shard, nshards, tier, seed, scratch):
    total = 14000 if tier == 'quick' else 120000
    stats = Stats()
    fails = run_hypothesis(st.one_of(st_names_case(), st_names_case(), st_names_case(), st_names_case(), st_direct_case()), lambda c: check_any(c, scratch, stats), max(1, total // nshards), seed, shrink_budget=200 if tier == 'quick' else 1500)
    for f in fails:
        f['leg'] = 'names'
    return {'stats': stats.export(), 'failures': fails}


def shard_with(shard, nshards, tier, seed, scratch):
    total = 800 if tier == 'quick' else 12000
    stats = Stats()
    fails = run_hypothesis(st_with_case(), lambda c: check_any(c, scratch, stats), max(1, total // nshards), seed, shrink_budget=100 if tier == 'quick' else 800)
    for f in fails:
        f['leg'] = 'with'
    return {'stats': stats.export(), 'failures': fails}


def replay(case, clause=None):
    import tempfile, shutil
    d = tempfile.mkdtemp(prefix='vf_c09_')
    try:
        check_any(case, d)
    finally:
        shutil.rmtree(d, ignore_errors=True)


def probe_known(k):
    """D16: a column whose name is the engine's internal literal placeholder."""
    r = engine.run_table('select a["___RBQL_STRING_LITERAL0___"], NR', [['x']], None, ['___RBQL_STRING_LITERAL0___'])
    return r['error'] is not None or r['out'] != [['x', 1]]
