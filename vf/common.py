# Shared machinery: repo loader, sharded runner, bounded-shrink Hypothesis driver,
# evidence / replay writers, known-findings handling.
from __future__ import annotations

import hashlib
import importlib
import json
import multiprocessing
import os
import shutil
import sys
import tempfile
import time
import traceback

VERIF_ROOT = os.path.dirname(os.path.dirname(os.path.abspath(__file__)))
REPO = os.path.abspath(os.environ.get('VERIF_REPO', '/repo'))
NCPU = min(16, os.cpu_count() or 1)

EXIT_OK = 0
EXIT_VIOLATION = 1
EXIT_HARNESS = 2


class HarnessError(Exception):
    """Something is wrong with the harness or the environment; never a violation."""


class Violation(Exception):
    """The property is violated for the current case. clause = short oracle-clause id."""

    def __init__(self, clause, detail=None):
        Exception.__init__(self, clause)
        self.clause = clause
        self.detail = detail


def load_rbql():
    """Import the rbql package from the working tree (never from site-packages)."""
    path = os.path.join(REPO, 'rbql-py')
    if sys.path[0] != path:
        sys.path.insert(0, path)
    import rbql
    from rbql import rbql_engine, rbql_csv, csv_utils  # noqa: F401
    here = os.path.abspath(rbql.__file__)
    if not here.startswith(REPO + os.sep):
        raise HarnessError('rbql imported from %s, not from %s' % (here, REPO))
    return rbql


def digest(obj):
    return hashlib.blake2b(json.dumps(obj, sort_keys=True, default=repr).encode('utf-8', 'surrogatepass'), digest_size=8).digest()


def jsonable(obj):
    """Make a case JSON-serialisable (tuples -> lists, bytes -> {'__bytes__': hex})."""
    if isinstance(obj, (bytes, bytearray)):
        return {'__bytes__': bytes(obj).hex()}
    if isinstance(obj, dict):
        return {str(k): jsonable(v) for k, v in obj.items()}
    if isinstance(obj, (list, tuple)):
        return [jsonable(v) for v in obj]
    if isinstance(obj, (set, frozenset)):
        return sorted((jsonable(v) for v in obj), key=repr)
    if isinstance(obj, float) and (obj != obj or obj in (float('inf'), float('-inf'))):
        return {'__float__': repr(obj)}
    if isinstance(obj, (str, int, float, bool)) or obj is None:
        return obj
    return {'__repr__': repr(obj)}


def unjsonable(obj):
    if isinstance(obj, dict):
        if set(obj.keys()) == {'__bytes__'}:
            return bytes.fromhex(obj['__bytes__'])
        if set(obj.keys()) == {'__float__'}:
            return float(obj['__float__'])
        return {k: unjsonable(v) for k, v in obj.items()}
    if isinstance(obj, list):
        return [unjsonable(v) for v in obj]
    return obj


class Stats(object):
    """Per-shard counters; merged by the runner."""

    def __init__(self):
        self.evaluations = 0
        self.nontrivial = set()       # digests of distinct non-trivial cases
        self.nontrivial_counted = 0   # for enumerations whose cases are distinct by construction
        self.classes = {}
        self.samples = []
        self.excluded_known = 0
        self.notes = []
        self.max_samples = 4

    def case(self, case_obj, nontrivial, classes=(), sample=None, distinct_by_construction=False):
        self.evaluations += 1
        for c in classes:
            self.classes[c] = self.classes.get(c, 0) + 1
        if nontrivial:
            if distinct_by_construction:
                self.nontrivial_counted += 1
            else:
                self.nontrivial.add(digest(jsonable(case_obj)))
            if len(self.samples) < self.max_samples:
                self.samples.append(jsonable(sample if sample is not None else case_obj))

    def bump(self, cls, n=1):
        self.classes[cls] = self.classes.get(cls, 0) + n

    def export(self):
        return {'evaluations': self.evaluations, 'nontrivial': self.nontrivial, 'nontrivial_counted': self.nontrivial_counted,
                'classes': self.classes, 'samples': self.samples, 'excluded_known': self.excluded_known, 'notes': self.notes}


def merge_stats(parts):
    out = {'evaluations': 0, 'nontrivial': set(), 'nontrivial_counted': 0, 'classes': {}, 'samples': [], 'excluded_known': 0, 'notes': []}
    for p in parts:
        out['evaluations'] += p['evaluations']
        out['nontrivial'] |= p['nontrivial']
        out['nontrivial_counted'] += p['nontrivial_counted']
        out['excluded_known'] += p['excluded_known']
        for k, v in p['classes'].items():
            out['classes'][k] = out['classes'].get(k, 0) + v
        out['notes'] += [n for n in p['notes'] if n not in out['notes']]
    # round-robin the samples so every shard / leg is represented
    i = 0
    while len(out['samples']) < 10:
        took = False
        for p in parts:
            if i < len(p['samples']) and len(out['samples']) < 10:
                out['samples'].append(p['samples'][i])
                took = True
        if not took:
            break
        i += 1
    return out


# ---------------------------------------------------------------------------------------------
# Hypothesis driver with bounded shrinking and bucketed failures

def case_size(case):
    try:
        return len(json.dumps(jsonable(case)))
    except Exception:
        return 1 << 30


def run_hypothesis(strategy, check_case, max_examples, seed, shrink_budget=400, max_buckets=3):
    """Run check_case(case) over `max_examples` draws of `strategy`.

    check_case raises Violation(clause, detail) when the property fails. Returns a list of
    failures [{clause, detail, case}] - one per distinct clause (root-cause bucket), each
    shrunk by Hypothesis within `shrink_budget` further executions.
    """
    import hypothesis
    from hypothesis import given, settings, HealthCheck, Phase

    failures = []
    ignored = set()
    for _round in range(max_buckets):
        state = {'best': None, 'after_fail': 0}

        def body(case):
            if state['best'] is not None:
                state['after_fail'] += 1
                if state['after_fail'] > shrink_budget:
                    return  # budget used up: let Hypothesis wind down, best-so-far is kept
            try:
                check_case(case)
            except Violation as v:
                if v.clause in ignored:
                    return
                if state['best'] is not None and v.clause != state['best'][2].clause:
                    return  # a different bucket; it gets its own round
                size = case_size(case)
                if state['best'] is None or size <= state['best'][0]:
                    state['best'] = (size, case, v)
                raise

        test = settings(max_examples=max_examples, database=None, deadline=None, report_multiple_bugs=False,
                        suppress_health_check=list(HealthCheck), derandomize=False,
                        phases=[Phase.generate, Phase.shrink], print_blob=False,
                        verbosity=hypothesis.Verbosity.quiet)(hypothesis.seed(seed)(given(strategy)(body)))
        try:
            test()
        except Violation:
            pass
        except HarnessError:
            raise
        except BaseException as e:  # Flaky etc. after the budget cut-off; anything else is a harness problem
            if state['best'] is None:
                raise HarnessError('hypothesis run failed without a violation: %r\n%s' % (e, traceback.format_exc()))
        if state['best'] is None:
            break
        _size, case, v = state['best']
        failures.append({'clause': v.clause, 'detail': jsonable(v.detail), 'case': jsonable(case)})
        ignored.add(v.clause)
    return failures


# ---------------------------------------------------------------------------------------------
# Sharded execution

def _shard_entry(args):
    modname, fn, shard, nshards, tier, seed = args
    try:
        os.environ.setdefault('PYTHONHASHSEED', '0')
        mod = importlib.import_module(modname)
        scratch = tempfile.mkdtemp(prefix='vf_%s_%d_' % (modname.split('.')[-1], shard))
        try:
            res = getattr(mod, fn)(shard=shard, nshards=nshards, tier=tier, seed=seed * 1000 + shard, scratch=scratch)
            if isinstance(res, dict):
                res['stage'] = fn
        finally:
            shutil.rmtree(scratch, ignore_errors=True)
        return ('ok', res)
    except HarnessError as e:
        return ('harness', '%s\n%s' % (e, traceback.format_exc()))
    except BaseException as e:
        return ('harness', 'shard %d crashed: %r\n%s' % (shard, e, traceback.format_exc()))


def run_sharded(modname, stages, tier, seed, timeout_s):
    """Run every (fn, nshards) stage of a check module in one process pool; returns the list
    of shard results; raises HarnessError."""
    ctx = multiprocessing.get_context('fork')
    jobs = []
    for fn, nshards in stages:
        jobs += [(modname, fn, i, nshards, tier, seed) for i in range(nshards)]
    if len(jobs) == 1:
        outs = [_shard_entry(jobs[0])]
    else:
        pool = ctx.Pool(min(NCPU, len(jobs)), maxtasksperchild=1)
        try:
            r = pool.map_async(_shard_entry, jobs, chunksize=1)
            try:
                outs = r.get(timeout=timeout_s)
            except multiprocessing.TimeoutError:
                pool.terminate()
                raise HarnessError('watchdog: shards of %s did not finish within %d s (inconclusive, not a violation)' % (modname, timeout_s))
        finally:
            pool.terminate()
            pool.join()
    results = []
    for kind, payload in outs:
        if kind != 'ok':
            raise HarnessError(payload)
        results.append(payload)
    return results


# ---------------------------------------------------------------------------------------------
# Known findings

def load_known_findings():
    path = os.path.join(VERIF_ROOT, 'known_findings.json')
    with open(path) as f:
        return json.load(f)


def known_for(prop):
    return [k for k in load_known_findings().get('known', []) if k['property'] == prop]


# ---------------------------------------------------------------------------------------------
# Evidence and replays

def write_replay(prop, failure):
    d = os.path.join(VERIF_ROOT, 'replays')
    os.makedirs(d, exist_ok=True)
    blob = json.dumps({'property': prop, 'failure': failure}, sort_keys=True, indent=1, ensure_ascii=True)
    sha = hashlib.sha1(blob.encode()).hexdigest()[:12]
    path = os.path.join(d, '%s-%s.json' % (prop, sha))
    with open(path, 'w') as f:
        f.write(blob)
    return path


def write_evidence(prop, tier, seed, level, merged, rule, wall_s, violations, assumptions, extra=None):
    d = os.path.join(VERIF_ROOT, 'evidence')
    if os.environ.get('VERIF_REPO'):
        # a run against a scratch copy (mutation / seeded-change testing) must never overwrite the evidence of the real tree
        d = os.path.join(VERIF_ROOT, 'replays', 'scratch-evidence')
    os.makedirs(d, exist_ok=True)
    cov = {
        'evaluations': int(merged['evaluations']),
        'distinct_nontrivial': int(len(merged['nontrivial']) + merged['nontrivial_counted']),
        'rule': rule,
        'samples': merged['samples'][:10],
        'classes': dict(sorted(merged['classes'].items())),
        'excluded_known': int(merged['excluded_known']),
    }
    if merged['notes']:
        cov['notes'] = merged['notes']
    if extra:
        cov.update(extra)
    ev = {'property_id': prop, 'tier': tier, 'seed': int(seed), 'level': level, 'coverage': cov,
          'assumptions': assumptions, 'wall_s': round(wall_s, 2), 'violations': int(violations)}
    path = os.path.join(d, '%s.json' % prop)
    tmp = path + '.tmp'
    with open(tmp, 'w') as f:
        json.dump(ev, f, indent=1, sort_keys=True, ensure_ascii=True)
        f.write('\n')
    os.replace(tmp, path)
    return path


def now():
    return time.monotonic()
