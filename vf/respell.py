# Re-spelling layer (C08): takes a structured query and produces an equivalent text that
# differs in keyword case, clause order, white space, comment lines, trailing semicolons and
# interchangeable spellings. Literals are never touched (a small Python-literal scanner keeps
# them apart from the rest of the text).
from __future__ import annotations

import copy
import re

from hypothesis import strategies as st

from . import qgen


def scan_literals(text):
    """Split text into [(is_literal, piece)] following Python string-literal syntax."""
    out = []
    i, n = 0, len(text)
    cur = []
    while i < n:
        ch = text[i]
        if ch in '\'"':
            q = text[i:i + 3] if text[i:i + 3] in ("'''", '"""') else ch
            j = i + len(q)
            while j < n:
                if text[j] == '\\':
                    j += 2
                    continue
                if text.startswith(q, j):
                    break
                j += 1
            if j >= n:
                raise ValueError('unterminated literal in %r' % text)
            if cur:
                out.append((False, ''.join(cur)))
                cur = []
            out.append((True, text[i:j + len(q)]))
            i = j + len(q)
            continue
        cur.append(ch)
        i += 1
    if cur:
        out.append((False, ''.join(cur)))
    return out


def map_nonliteral(text, fn):
    return ''.join(p if lit else fn(p) for lit, p in scan_literals(text))


def mixed_case(draw, kw):
    k = draw(st.integers(0, 3))
    if k == 0:
        return kw.upper()
    if k == 1:
        return kw.lower()
    if k == 2:
        return kw.title()
    return ''.join(c.upper() if draw(st.booleans()) else c.lower() for c in kw)


VAR_TOKEN = re.compile(r'(?<![A-Za-z0-9_.\]])([ab])(?:\[([1-9][0-9]*)\]|([1-9][0-9]*)(?![A-Za-z0-9_\[(]))')


def respell(draw, case):
    """Returns (text, kinds): an equivalent spelling of case['q'] in Python flavour."""
    q = copy.deepcopy(case['q'])
    kinds = set()
    # interchangeable spellings on the structure
    if q.get('top') and draw(st.booleans()):
        q['top']['form'] = 'LIMIT' if q['top']['form'] == 'TOP' else 'TOP'
        kinds.add('top<->limit')
    j = q.get('join')
    if j:
        swap_kind = {'JOIN': 'INNER JOIN', 'INNER JOIN': 'JOIN', 'LEFT JOIN': 'LEFT OUTER JOIN', 'LEFT OUTER JOIN': 'LEFT JOIN'}
        if j['kind'] in swap_kind and draw(st.booleans()):
            j['kind'] = swap_kind[j['kind']]
            kinds.add('join-synonym')
        for p in j['pairs']:
            if draw(st.booleans()):
                p['eq'] = draw(st.sampled_from(['==', '=', ' == ', ' = ']))
                kinds.add('on-eq-spelling')
            if 'f' in p['l'] and 'f' in p['r'] and draw(st.booleans()):
                p['swap'] = not p.get('swap')
                kinds.add('on-sides-swapped')
        if draw(st.booleans()):
            j['table'] = 'B' if j.get('table', 'b') == 'b' else 'b'
    if q['type'] == 'update' and draw(st.booleans()):
        form = draw(st.integers(0, 2))
        q['set_kw'], q['update_a'] = form == 1, form == 2
        if form == 2:
            q['a_spelling'] = draw(st.sampled_from(['a', 'A']))
        kinds.add('update-set-form')
    if q.get('order') and not q['order'].get('desc') and draw(st.booleans()):
        q['order']['asc_kw'] = not q['order'].get('asc_kw')
        kinds.add('asc-keyword')
    recase = draw(st.booleans())

    regap = draw(st.integers(0, 2)) == 1

    def K(kw):
        words = kw.split(' ')
        if recase:
            kinds.add('keyword-case')
            words = [mixed_case(draw, w) for w in words]
        out = words[0]
        for w in words[1:]:
            gap = ' '
            if regap:
                # white space between the words of a multi-word keyword (ORDER  BY, LEFT OUTER<TAB>JOIN, DISTINCT   COUNT)
                gap = draw(st.sampled_from([' ', '  ', '\t', ' \t ', '   ', '\n']))
                if gap != ' ':
                    kinds.add('keyword-inner-whitespace')
            out += gap + w
        return out
    head, clauses = qgen.render_clauses(q, 'py', K)
    # aN <-> a[N] outside literals
    if draw(st.booleans()):
        def flip(text):
            def cb(m):
                if not draw(st.booleans()):
                    return m.group(0)
                kinds.add('aN<->a[N]')
                if m.group(2) is not None:
                    return '%s%s' % (m.group(1), m.group(2))
                return '%s[%s]' % (m.group(1), m.group(3))
            return VAR_TOKEN.sub(cb, text)
        head = [map_nonliteral(h, flip) for h in head]
        clauses = [[map_nonliteral(c, flip) for c in cl] for cl in clauses]
    # redundant FROM a
    if q['type'] == 'select' and draw(st.integers(0, 2)) == 0:
        clauses.append([K('FROM'), draw(st.sampled_from(['a', 'A']))])
        kinds.add('from-a')
    # clause permutation
    if len(clauses) > 1 and draw(st.booleans()):
        perm = draw(st.permutations(list(range(len(clauses)))))
        if list(perm) != list(range(len(clauses))):
            kinds.add('clause-order')
        clauses = [clauses[i] for i in perm]
    # white space, line breaks and comment lines between tokens
    pieces = head + [p for cl in clauses for p in cl]
    ws = draw(st.integers(0, 2))
    text = pieces[0]
    for p in pieces[1:]:
        if ws == 0:
            sep = ' '
        else:
            sep = draw(st.sampled_from([' ', '  ', '\t', ' \t ', '\n', ' \n', '\n  ', '\n\n', '   ', '\r\n', '\r\n\t', '\n\t']))
            if sep != ' ':
                kinds.add('whitespace')
            if '\n' in sep:
                kinds.add('line-breaks')
            if ws == 2 and draw(st.integers(0, 3)) == 0:
                nl = draw(st.sampled_from(['\n', '\n', '\r\n']))
                sep = nl + draw(st.sampled_from(['# comment', '#', '  # select * where 1 = 1', '#; order by a1 join b on a1 == b1', "# it's \"quoted\"", '\t# tab-indented comment', ' \t #x'])) + nl
                kinds.add('comment-lines')
        text += sep + p
    if ws == 2 and draw(st.booleans()):
        text = draw(st.sampled_from(['# leading comment\n', '   #x\n', '\n'])) + text
        kinds.add('comment-lines')
    if ws == 2 and draw(st.booleans()):
        text = text + draw(st.sampled_from(['\n# trailing comment', '\n#', '\n', '  ', '\r\n', '\r\n\t# c\r\n']))
        kinds.add('comment-lines')
    if draw(st.integers(0, 5)) == 0:
        # list tables ignore query modifiers: appending one (keyword in any letter case) must change nothing
        text = text.rstrip() if not text.rstrip().endswith('#') else text
        text += '\n' + mixed_case(draw, 'with') + draw(st.sampled_from([' ', '', '  '])) + '(' + draw(st.sampled_from(['header', 'noheader', 'headers'])) + ')'
        kinds.add('with-modifier-noop')
    semi = draw(st.integers(0, 4))
    if semi == 1:
        text += ';'
    elif semi == 2:
        text += ' ;'
    elif semi == 3:
        text += '\n;'
    elif semi == 4:
        text += ';;'
    if semi:
        kinds.add('semicolon')
        if draw(st.integers(0, 2)) == 0:
            text += draw(st.sampled_from(['\n# done', '\n#', '\n  # select 1;', '\n# a\n# b', '\n\n']))
            kinds.add('comment-after-semicolon')
    return text, sorted(kinds)
