# C18 - Python and JavaScript implementations agree on the CSV dialect and headers.
from __future__ import annotations

import io
import itertools
import os

from hypothesis import strategies as st

from ..common import Stats, run_hypothesis, Violation
from .. import refcsv, jsdriver, engine, qgen
from . import c10, c07

from rbql import rbql_csv, csv_utils  # noqa: E402

PROP = 'C18'
LEVEL = 'exploration'
RULE = ('Differential Python <-> JavaScript (node driver requiring <repo>/rbql-js by absolute path), same cases on both sides. (a) every line up to length 6 '
        '(quick) / 8 (thorough) over {quote, delimiter, space, other} (+ first delimiter character for multi-character delimiters) x delimiters x {quoted, '
        'simple, whitespace, monocolumn} x preserve flag -> smart_split; (b) every string up to length 4/5 over {a, quote, delimiter, space, LF, CR} -> '
        'quote_field / rfc_quote_field; (c) every byte string up to length 4/6 over {a, quote, comma, space, LF, CR, #} x 5 policies x comment '
        'prefix x header flag x {utf-8, latin-1} -> both readers (node: single-chunk stream; bulk mode from real files for a sample); (d) tables from the C10 '
        'generator written by each writer (bytes compared) and read by the other reader; (e) random long Unicode lines / files; (f) language-neutral select '
        'lists x header/no-header (incl. hostile column names) -> output header and error class from both engines. Oracle = equality of fields + warning '
        'flag, quoted text, records, warning sets (texts), error class + message, headers. Non-trivial = input containing a quote or a line break; '
        'enumerated inputs are distinct by construction.'
        ' Later additions: delimiters containing / starting with a space, big files, hostile header names incl. apostrophes and mixed-case AS.')
ASSUMPTIONS = ['warning order is not compared', 'writer warnings are not compared (the property speaks of reader warnings)', 'lone surrogates are never generated (JSON transport)']

SINGLE = [',', ';', '\t', '|', ' ']
MULTI = ['::', 'ab', ', ', ' | ', '  ']


def plan(tier):
    return {'stages': [('shard_lines', 5), ('shard_quote', 1), ('shard_files', 6), ('shard_tables', 2), ('shard_headers', 2)], 'timeout_s': 3000}


def add_failure(failures, seen, leg, v, case):
    key = (leg, v.clause)
    if key not in seen:
        seen.add(key)
        failures.append({'leg': leg, 'clause': v.clause, 'detail': v.detail, 'case': case})


# ---------------------------------------------------------------------------------------------
# (a) lines

def compare_split(drv, lines, dlm, policy, preserve, stats, failures, seen):
    r = drv.call({'cmd': 'split', 'lines': lines, 'delim': dlm, 'policy': policy, 'preserve': preserve})['results']
    for line, js in zip(lines, r):
        stats.evaluations += 1
        py = csv_utils.smart_split(line, dlm, policy, preserve)
        py = [py[0], bool(py[1])]
        if js != py:
            add_failure(failures, seen, 'lines', Violation('split-differs', {'line': line, 'delim': dlm, 'policy': policy, 'preserve': preserve, 'py': py, 'js': js}),
                        {'kind': 'line', 'line': line, 'delim': dlm, 'policy': policy, 'preserve': preserve})


def shard_lines(shard, nshards, tier, seed, scratch):
    stats = Stats()
    failures, seen = [], set()
    drv = jsdriver.Driver()
    maxlen = 6 if tier == 'quick' else 8
    try:
        counter = 0
        for d in SINGLE + MULTI:
            if d == ' ':
                alpha, ml = ['"', ' ', 'x'], maxlen + 1
            elif len(d) > 1:
                alpha, ml = list(dict.fromkeys(['"', d, ' ', 'x', d[0], d[-1]])), maxlen - 1
            else:
                alpha, ml = ['"', d, ' ', 'x'], maxlen
            lines = [''.join(t) for n in range(0, ml + 1) for t in itertools.product(alpha, repeat=n)]
            for start in range(0, len(lines), 4000):
                counter += 1
                if counter % nshards != shard:
                    continue
                chunk = lines[start:start + 4000]
                for policy in (['quoted', 'simple', 'monocolumn'] + (['whitespace'] if d == ' ' else [])):
                    for preserve in ((False, True) if policy in ('quoted', 'whitespace') else (False,)):
                        compare_split(drv, chunk, d, policy, preserve, stats, failures, seen)
                stats.nontrivial_counted += sum(1 for l in chunk if '"' in l) * 2
        stats.samples.append({'leg': 'lines', 'line': '"x""y", z', 'delim': ',', 'py': csv_utils.smart_split('"x""y", z', ',', 'quoted', False)[0]})
    finally:
        drv.close()
    return {'stats': stats.export(), 'failures': failures, 'extra': {'exhaustive': True}}


# ---------------------------------------------------------------------------------------------
# (b) quoting

def shard_quote(shard, nshards, tier, seed, scratch):
    stats = Stats()
    failures, seen = [], set()
    drv = jsdriver.Driver()
    maxlen = 4 if tier == 'quick' else 5
    try:
        for d in [',', ' ', '::', '\t']:
            alpha = ['a', '"', ' ', '\n', '\r'] + sorted(set(d) - {' '})
            fields = [''.join(t) for n in range(0, maxlen + 1) for t in itertools.product(alpha, repeat=n)]
            for rfc in (False, True):
                js = drv.call({'cmd': 'quote', 'fields': fields, 'delim': d, 'rfc': rfc})['results']
                fn = csv_utils.rfc_quote_field if rfc else csv_utils.quote_field
                for f, j in zip(fields, js):
                    stats.evaluations += 1
                    if '"' in f or '\n' in f or '\r' in f:
                        stats.nontrivial_counted += 1
                    p = fn(f, d)
                    if p != j:
                        add_failure(failures, seen, 'quote', Violation('quote-differs', {'field': f, 'delim': d, 'rfc': rfc, 'py': p, 'js': j}), {'kind': 'field', 'field': f, 'delim': d, 'rfc': rfc})
        stats.samples.append({'leg': 'quote', 'field': 'a"\n', 'py_rfc': csv_utils.rfc_quote_field('a"\n', ',')})
    finally:
        drv.close()
    return {'stats': stats.export(), 'failures': failures, 'extra': {'exhaustive': True}}


# ---------------------------------------------------------------------------------------------
# (c) files

def py_read(data, encoding, dlm, policy, comment, has_header):
    try:
        it = rbql_csv.CSVRecordIterator(io.BytesIO(data), encoding, dlm, policy, has_header=has_header, comment_prefix=comment)
        recs = it.get_all_records()
        return (recs, it.get_header(), sorted(it.get_warnings()))
    except Exception as e:
        inf = engine.err_info(e)
        return ('error', inf['cls'], inf['msg'])


def js_norm(res):
    if res['error'] is not None:
        return ('error', res['error']['cls'], res['error']['msg'])
    return (res['records'], res['header'], sorted(res['warnings']))


FILE_ALPHABET = ['a', '"', ',', ' ', '\n', '\r', '#']
FILE_POLICIES = [('quoted', ','), ('quoted_rfc', ','), ('simple', ','), ('whitespace', ' '), ('monocolumn', '')]


def compare_files(drv, datas, cfg, stats, failures, seen, leg='files', mode='stream', scratch=None):
    enc = cfg['encoding']
    jcfg = dict(cfg, encoding='binary' if enc == 'latin-1' else enc)
    if mode == 'stream':
        r = drv.call(dict(jcfg, cmd='read_partitions', jobs=[{'hex': d.hex(), 'first_mask': 1 << 40} for d in datas]))['results']
        js_results = [x['whole'] for x in r]
    else:
        js_results = []
        for d in datas:
            path = os.path.join(scratch, 'c18_bulk.csv')
            with open(path, 'wb') as f:
                f.write(d)
            js_results.append(drv.call(dict(jcfg, cmd='read_csv', mode='bulk', path=path)))
    for data, jr in zip(datas, js_results):
        stats.evaluations += 1
        py = py_read(data, enc, cfg['delim'], cfg['policy'], cfg.get('comment_prefix'), cfg.get('has_header'))
        js = js_norm(jr)
        if py != js:
            add_failure(failures, seen, leg, Violation('reader-differs-' + mode, {'hex': data.hex(), 'text': data.decode('latin-1'), 'cfg': cfg, 'py': py, 'js': js}),
                        {'kind': 'file', 'hex': data.hex(), 'cfg': cfg, 'mode': mode})


def shard_files(shard, nshards, tier, seed, scratch):
    stats = Stats()
    failures, seen = [], set()
    drv = jsdriver.Driver()
    maxn = 4 if tier == 'quick' else 6
    try:
        texts = [''.join(t).encode() for n in range(0, maxn + 1) for t in itertools.product(FILE_ALPHABET, repeat=n)]
        counter = 0
        for start in range(0, len(texts), 1500):
            counter += 1
            if counter % nshards != shard:
                continue
            chunk = texts[start:start + 1500]
            for policy, dlm in FILE_POLICIES:
                for comment in (None, '#'):
                    for has_header in (False, True):
                        if has_header and comment is None and policy not in ('quoted', 'quoted_rfc'):
                            continue
                        for enc in (('utf-8', 'latin-1') if (policy == 'quoted' and not has_header) else ('utf-8',)):
                            cfg = dict(encoding=enc, delim=dlm, policy=policy, comment_prefix=comment, has_header=has_header)
                            compare_files(drv, chunk, cfg, stats, failures, seen)
            stats.nontrivial_counted += sum(1 for t in chunk if b'"' in t or b'\n' in t or b'\r' in t) * 10
            if counter % (nshards * 7) == shard:
                cfg = dict(encoding='utf-8', delim=',', policy='quoted_rfc', comment_prefix='#', has_header=False)
                compare_files(drv, chunk[:40], cfg, stats, failures, seen, mode='bulk', scratch=scratch)
                stats.bump('bulk-mode-files', len(chunk[:40]))
        # BOM and multi-byte samples, both encodings, both modes
        samples = ['\ufeffa,é\r\n"x\r\ny",€\n'.encode(), 'é,"ж\r\n€",𝄞\r\nz'.encode(), b'\xef\xbb\xbf#c\na\n', b'a,\xffb\n', b'\xe2\x82', '\ufeff'.encode(), 'a\n\ufeffb\n'.encode()]
        if shard == 0:
            for policy, dlm in FILE_POLICIES[:3]:
                for enc in ('utf-8', 'latin-1'):
                    for comment in (None, '#'):
                        cfg = dict(encoding=enc, delim=dlm, policy=policy, comment_prefix=comment, has_header=False)
                        compare_files(drv, samples, cfg, stats, failures, seen, leg='samples')
                        compare_files(drv, samples, cfg, stats, failures, seen, leg='samples', mode='bulk', scratch=scratch)
            stats.samples.append({'leg': 'files', 'bytes': samples[0].hex(), 'py': py_read(samples[0], 'utf-8', ',', 'quoted_rfc', None, False)})
        if shard in (1, 2, 3):
            # files larger than one 64 KiB stream chunk, every kind of line ending and an empty line near each chunk boundary
            import random
            rnd = random.Random(seed * 7 + shard)
            combos = [(b'\r', 0), (b'\r\n', 0), (b'\r\n', -1), (b'\n', 0), (b'\r', -1), (b'\r', 1), (b'\r\n', 1), (b'\n', -1)]
            for fileno in range(2 if tier == 'quick' else 8):
                eol, delta = combos[((shard - 1) * 2 + fileno) % len(combos)] if tier == 'quick' else combos[fileno]
                parts = []
                size = 0
                target = (65536 if (tier == 'quick' or fileno % 2 == 0) else 131072) + delta
                while size < 140000:
                    line = ('r%d,"%s",%s' % (len(parts), rnd.choice(['a,b', 'q""r', 'é€', 'plain', '𝄞']), 'x' * rnd.randint(0, 30))).encode('utf-8')
                    if size < target <= size + len(line) + 2 * len(eol):
                        line = line[:max(target - size - len(eol), 1)].decode('utf-8', errors='ignore').encode('utf-8') or b'z'
                        parts.append(line)
                        parts.append(b'')          # an empty line right at the boundary
                        size += len(line) + 2 * len(eol)
                        continue
                    parts.append(line)
                    size += len(line) + len(eol)
                data = eol.join(parts) + eol
                path = os.path.join(scratch, 'c18_big.csv')
                with open(path, 'wb') as f:
                    f.write(data)
                for policy in ('quoted', 'simple'):
                    cfg = dict(encoding='utf-8', delim=',', policy=policy, comment_prefix=None, has_header=False)
                    py = py_read(data, 'utf-8', ',', policy, None, False)
                    for mode in ('file', 'bulk'):
                        js = js_norm(drv.call(dict(cfg, cmd='read_csv', mode=mode, path=path)))
                        stats.evaluations += 1
                        stats.nontrivial_counted += 1
                        if py != js:
                            diff_at = None
                            if py[0] != 'error' and js[0] != 'error':
                                diff_at = next((i for i, (x, y) in enumerate(zip(py[0], js[0])) if x != y), min(len(py[0]), len(js[0])))
                            add_failure(failures, seen, 'bigfiles', Violation('big-file-reader-differs-' + mode, {'size': len(data), 'eol': eol.decode(), 'policy': policy, 'first_difference_at_record': diff_at,
                                                                                                                      'py_records': len(py[0]) if py[0] != 'error' else py, 'js_records': len(js[0]) if js[0] != 'error' else js,
                                                                                                                      'py_warnings': py[2] if py[0] != 'error' else None, 'js_warnings': js[2] if js[0] != 'error' else None}),
                                        {'kind': 'bigfile', 'note': 'regenerated from seed', 'seed': seed, 'shard': shard})
            stats.bump('big-files')
    finally:
        drv.close()
    return {'stats': stats.export(), 'failures': failures, 'extra': {'exhaustive': True}}


# ---------------------------------------------------------------------------------------------
# (d) cross round trip and (e) random long inputs

def check_table_case(case, drv, stats=None):
    table, dlm, policy, enc = case['table'], case['delim'], case['policy'], case['encoding'] or 'utf-8'
    line_sep = case['line_sep']
    if any(c is None for r in table for c in r) and False:
        return
    jenc = 'binary' if enc == 'latin-1' else enc
    payload, wwarn, werr = c10.real_write(table, dlm, policy, line_sep, enc)
    jr = drv.call({'cmd': 'write_csv', 'table': table, 'delim': dlm, 'policy': policy, 'line_sep': line_sep, 'encoding': jenc})
    ctx = dict(case)
    if stats is not None:
        flat = [c for r in table for c in r if c is not None]
        stats.case(case, any('"' in c or '\n' in c or '\r' in c for c in flat), ['tables-' + policy], sample=case)
    if (werr is None) != (jr['error'] is None):
        raise Violation('writer-error-differs', dict(ctx, py=werr, js=jr['error']))
    if werr is not None:
        if werr['cls'] != jr['error']['cls']:
            raise Violation('writer-error-class-differs', dict(ctx, py=werr, js=jr['error']))
        return
    jbytes = bytes.fromhex(jr['hex'])
    if payload != jbytes:
        raise Violation('written-bytes-differ', dict(ctx, py=payload.hex(), js=jr['hex']))
    # each reads the other's output (bytes are identical, so one read each)
    cfg = dict(encoding=enc, delim=dlm, policy=policy, comment_prefix=None, has_header=False)
    py = py_read(payload, enc, dlm, policy, None, False)
    js = js_norm(drv.call(dict(cfg, encoding=jenc, cmd='read_csv', hex=jr['hex'], cuts=[])))
    if py != js:
        raise Violation('cross-read-differs', dict(ctx, py=py, js=js, bytes=payload.hex()))


@st.composite
def st_long_file(draw):
    policy, dlm = draw(st.sampled_from(FILE_POLICIES))
    if policy in ('quoted', 'quoted_rfc', 'simple'):
        dlm = draw(st.sampled_from([',', ';', '\t', '|', '::', '§']))
    piece = st.one_of(st.sampled_from(['a', '"', dlm or 'x', '\n', '\r', '\r\n', '#', ' ', '""', '"a,b"', 'é', '𝄞', '"x\r\ny"', '#c\n', '\ufeff', '\t', '\x0b', '\x0c', '\x1c', '\x85', '\xa0', '\u2003', 'a\tb', 'x\xa0y', ' \t ']),
                      st.text(st.characters(blacklist_categories=('Cs',)), max_size=4))
    text = ''.join(draw(st.lists(piece, min_size=0, max_size=50)))
    return {'kind': 'longfile', 'text': text, 'policy': policy, 'delim': dlm, 'comment': draw(st.sampled_from([None, '#', '#c'])), 'header': draw(st.booleans())}


def check_long_file(case, drv, stats=None):
    data = case['text'].encode('utf-8')
    cfg = dict(encoding='utf-8', delim=case['delim'], policy=case['policy'], comment_prefix=case['comment'], has_header=case['header'])
    py = py_read(data, 'utf-8', case['delim'], case['policy'], case['comment'], case['header'])
    js = js_norm(drv.call(dict(cfg, cmd='read_csv', hex=data.hex(), cuts=[])))
    if stats is not None:
        stats.case(case, '"' in case['text'] or '\n' in case['text'] or '\r' in case['text'], ['longfile-' + case['policy']], sample=case)
    if py != js:
        raise Violation('long-file-reader-differs', dict(case, py=py, js=js))
    if case['policy'] in ('quoted', 'quoted_rfc', 'simple', 'whitespace') and '\n' not in case['text'] and '\r' not in case['text']:
        line = case['text']
        for preserve in (False, True):
            p = csv_utils.smart_split(line, case['delim'], case['policy'], preserve)
            j = drv.call({'cmd': 'split', 'lines': [line], 'delim': case['delim'], 'policy': case['policy'], 'preserve': preserve})['results'][0]
            if [p[0], bool(p[1])] != j:
                raise Violation('long-line-split-differs', dict(case, preserve=preserve, py=[p[0], bool(p[1])], js=j))


def shard_tables(shard, nshards, tier, seed, scratch):
    total = 3000 if tier == 'quick' else 60000
    stats = Stats()
    drv = jsdriver.Driver()
    try:
        def cc(case):
            if case.get('kind') == 'longfile':
                check_long_file(case, drv, stats)
            else:
                check_table_case(case, drv, stats)
        fails = run_hypothesis(st.one_of(c10.st_case(), st_long_file()), cc, max(1, total // nshards), seed, shrink_budget=200 if tier == 'quick' else 1500)
    finally:
        drv.close()
    for f in fails:
        f['leg'] = 'tables'
    return {'stats': stats.export(), 'failures': fails}


# ---------------------------------------------------------------------------------------------
# (f) headers

HOSTILE_NAMES = ['a b', 'x"y', "it's", 'back\\slash', 'tab\there', 'br[ack]et', 'é', 'a.b c', '{x}', '#1', 'new\nline', 'q\\"uote', '100%', 'semi;colon', 'a,b', ' lead', 'col1']


@st.composite
def st_header_case(draw):
    base = draw(c07.st_header_case())
    if base['a_names'] is not None and draw(st.booleans()):
        # hostile column names, referenced through a["..."] / a['...']
        names = draw(st.lists(st.sampled_from(HOSTILE_NAMES), min_size=len(base['a_names']), max_size=len(base['a_names']), unique=True))
        base = dict(base)
        base['a_names'] = names
        items = []
        for i in range(draw(st.integers(1, 4))):
            idx = draw(st.integers(0, len(names) - 1))
            sp = draw(st.sampled_from(['a["n"]', "a['n']", 'aN', 'a[N]']))
            it = {'k': 'expr', 'e': qgen.field_expr('a', idx, sp, names)}
            if draw(st.integers(0, 4)) == 0:
                it['alias'] = draw(st.sampled_from(qgen.ALIAS_POOL))
                it['as_kw'] = draw(st.sampled_from(['AS', 'as']))
            items.append(it)
        if draw(st.integers(0, 3)) == 0:
            items.append({'k': 'star'})
        q = {'type': 'select', 'items': items, 'join': None}
        base['q'] = q
        base['B'], base['b_names'] = None, None
        base['kinds_used'] = ['hostile-names']
    return base


def check_header_case(case, drv, stats=None):
    q = case['q']
    if any(it.get('e', {}).get('py') == 'None' for it in q.get('items', [])):
        if stats is not None:
            stats.bump('headers-None/null-literal-skipped')
        return   # `None` / `null` is not syntax common to both languages (JS reads `null` as an identifier)
    if not qgen.renderable(q, 'js'):
        if stats is not None:
            stats.bump('headers-not-language-neutral-skipped')
        return
    tpy, tjs = qgen.render(q, 'py'), qgen.render(q, 'js')
    py = engine.run_table(tpy, [list(r) for r in case['A']], [list(r) for r in case['B']] if case.get('B') is not None else None, case.get('a_names'), case.get('b_names'))
    js = drv.query_table(tjs, case['A'], case.get('B'), case.get('a_names'), case.get('b_names'))
    if stats is not None:
        ku = case.get('kinds_used', [])
        stats.case(case, len(q['items']) >= 2 and case.get('a_names') is not None, ['headers'] + ['headers-' + k for k in ku if k in ('hostile-names', 'alias', 'star')],
                   sample={'py_query': tpy, 'js_query': tjs, 'a_names': case.get('a_names'), 'py_header': py['header'], 'js_header': js['header']})
    pe = py['error']['cls'] if py['error'] else None
    je = js['error']['cls'] if js['error'] else None
    if pe in ('RbqlParsingError',) or je in ('RbqlParsingError',):
        if pe != je:
            raise Violation('header-error-class-differs', {'py_query': tpy, 'js_query': tjs, 'py': py['error'], 'js': js['error'], 'a_names': case.get('a_names')})
        return
    if pe is not None or je is not None:
        return   # evaluation-level outcomes are C19's subject
    if py['header'] != js['header']:
        raise Violation('header-differs', {'py_query': tpy, 'js_query': tjs, 'py': py['header'], 'js': js['header'], 'a_names': case.get('a_names'), 'b_names': case.get('b_names')})


def shard_headers(shard, nshards, tier, seed, scratch):
    total = 3000 if tier == 'quick' else 60000
    stats = Stats()
    drv = jsdriver.Driver()
    try:
        fails = run_hypothesis(st_header_case(), lambda c: check_header_case(c, drv, stats), max(1, total // nshards), seed, shrink_budget=200 if tier == 'quick' else 1500)
    finally:
        drv.close()
    for f in fails:
        f['leg'] = 'headers'
    return {'stats': stats.export(), 'failures': fails}


def replay(case, clause=None):
    stats, failures, seen = Stats(), [], set()
    drv = jsdriver.Driver()
    try:
        kind = case.get('kind')
        if kind == 'line':
            compare_split(drv, [case['line']], case['delim'], case['policy'], case['preserve'], stats, failures, seen)
        elif kind == 'field':
            fn = csv_utils.rfc_quote_field if case['rfc'] else csv_utils.quote_field
            j = drv.call({'cmd': 'quote', 'fields': [case['field']], 'delim': case['delim'], 'rfc': case['rfc']})['results'][0]
            if fn(case['field'], case['delim']) != j:
                raise Violation('quote-differs', {'js': j})
        elif kind == 'unq':
            j = drv.call({'cmd': 'unquote', 'fields': [case['field']]})['results'][0]
            if csv_utils.unquote_field(case['field']) != j:
                raise Violation('unquote-differs', {'js': j})
        elif kind == 'file':
            import tempfile, shutil
            d = tempfile.mkdtemp(prefix='vf_c18_')
            try:
                compare_files(drv, [bytes.fromhex(case['hex'])], case['cfg'], stats, failures, seen, mode=case.get('mode', 'stream'), scratch=d)
            finally:
                shutil.rmtree(d, ignore_errors=True)
        elif kind == 'bigfile':
            import tempfile, shutil
            d = tempfile.mkdtemp(prefix='vf_c18_')
            try:
                r = shard_files(case.get('shard', 1), 6, 'quick', (case.get('seed', 1001) - case.get('shard', 1)) // 1000 * 1000 + case.get('shard', 1), d)
                failures += [f for f in r['failures'] if f.get('leg') == 'bigfiles']
            finally:
                shutil.rmtree(d, ignore_errors=True)
        elif kind == 'longfile':
            check_long_file(case, drv)
        elif 'table' in case:
            check_table_case(case, drv)
        else:
            check_header_case(case, drv)
    finally:
        drv.close()
    if failures:
        raise Violation(failures[0]['clause'], failures[0]['detail'])


def probe_known(k):
    return False
