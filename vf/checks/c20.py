# C20 - The JavaScript stream reader is independent of chunk boundaries.
from __future__ import annotations

import itertools
import os

from hypothesis import strategies as st

from ..common import Stats, run_hypothesis, Violation, HarnessError
from .. import refcsv, jsdriver

PROP = 'C20'
LEVEL = 'exploration'
RULE = ('Exhaustive: every input of n <= 6 bytes (thorough: n = 7 for three stream-specific configurations) over {a, ", comma, LF, CR, #} x all 2^(n-1) byte partitions, delivered as separate '
        'Buffers by a Readable to rbql_csv.CSVRecordIterator(stream, null, ...), x {simple, quoted, quoted_rfc} x comment prefix {none, #} x encodings '
        '{utf-8, binary}; all partitions of UTF-8 samples with 2-, 3-, 4-byte characters, BOM and CRLF (<= 13 bytes), incl. invalid and truncated '
        'sequences; real files of 64 KiB +- 4 bytes and 200 KiB with a multi-byte character / CRLF / quoted field straddling offset 65536 read through '
        'fs.createReadStream and in bulk mode. Oracle: (records, header, warnings as a set, error) of every partition == single-chunk delivery == '
        'reference reader on the decoded text == bulk reading; valid UTF-8 is never rejected, invalid UTF-8 is rejected for every partition. '
        'Non-trivial = a cut inside a CRLF pair or inside a multi-byte character; enumerated deliveries are distinct by construction.'
        ' Later additions: 140000 one-character rows, a 15000-line record, pieces of mixed sizes, 1 MiB chunks, files over 16 MiB with a character straddling 2^24, two readers alive at once.')
ASSUMPTIONS = ['node Readable.from([Buffer...], {objectMode:false}) delivers the prescribed chunks unchanged', 'warning order is not compared (not claimed)']

ALPHABET = ['a', '"', ',', '\n', '\r', '#']
POLICIES = [('simple', ','), ('quoted', ','), ('quoted_rfc', ',')]
UTF8_SAMPLES = ['a,\ufffd\r\n\ufffd"x', 'é,"ж\r\n€",𝄞\r', '\ufeffa,é\r\n"\r\n"', '#ж\n𝄞"\r\r\n"é', '€\r\n\ufeff\r\n#', 'a\r\nb\r\nc\r\n', 'e\u0301,a\u030a\n\u212b']
BAD_SAMPLES = [b'a,\xffb\n', b'\xc3', b'a\n\xe2\x82', b'\x80a,b', b'ab\xf0\x9d\x84\n', b'\xc3\xa9,\xa9\r\n']


def plan(tier):
    return {'stages': [('shard_enum', 14), ('shard_samples', 1), ('shard_files', 1)], 'timeout_s': 3000}


def norm(res):
    if res['error'] is not None:
        return ('error', res['error']['cls'], res['error']['msg'])
    return (res['records'], res['header'], sorted(res['warnings']))


def expected(text, dlm, policy, comment, has_header, bom):
    strip = False
    if bom and text.startswith(bom):
        text = refcsv.BOM + text[len(bom):]
        strip = True
    res = refcsv.read_table(text, dlm, policy, comment, strip)
    if res['error'] is not None:
        return ('error', 'RbqlIOHandlingError', res['error'])
    recs = res['records']
    header = None
    if has_header:
        header = recs[0] if recs else None
        recs = recs[1:]
    return (recs, header, sorted(refcsv.warnings_text(res)))


def run_jobs(drv, datas, cfg, stats, failures, seen, leg, step=1):
    """datas: list of bytes. Every partition of each is read; compares with whole and reference."""
    enc = cfg['encoding']
    r = drv.call(dict(cfg, cmd='read_partitions', jobs=[{'hex': d.hex(), 'step': step} for d in datas]))
    for data, res in zip(datas, r['results']):
        stats.evaluations += res['nmasks'] + 1
        whole = norm(res['whole'])
        try:
            text = data.decode('utf-8' if enc == 'utf-8' else 'latin-1')
            valid = True
        except UnicodeDecodeError:
            valid = False
        case = {'kind': 'bytes', 'hex': data.hex(), 'cfg': cfg}
        try:
            if valid:
                exp = expected(text, cfg['delim'], cfg['policy'], cfg.get('comment_prefix'), cfg.get('has_header'), '\ufeff' if enc == 'utf-8' else '\xef\xbb\xbf')
                if whole != exp:
                    raise Violation('single-chunk-vs-reference', dict(case, got=res['whole'], expected=exp))
            else:
                if whole[0] != 'error' or whole[1] != 'RbqlIOHandlingError':
                    raise Violation('invalid-utf8-accepted', dict(case, got=res['whole']))
            if res['bad']:
                b = res['bad'][0]
                n = len(data)
                cuts = [i + 1 for i in range(n - 1) if b['mask'] >> i & 1]
                raise Violation('partition-differs-from-single-chunk' if valid else 'invalid-utf8-partition-differs', dict(case, cuts=cuts, got=b['got'], whole=res['whole']))
        except Violation as v:
            key = (leg, cfg['policy'], cfg['encoding'], v.clause)
            if key not in seen:
                seen.add(key)
                failures.append({'leg': leg, 'clause': v.clause, 'detail': v.detail, 'case': case})


def count_nontrivial(data, enc):
    """Number of partitions (masks) that cut inside a CRLF pair or inside a multi-byte character."""
    n = len(data)
    special = set(i + 1 for i in range(n - 1) if data[i:i + 2] == b'\r\n')
    if enc == 'utf-8':
        for i in range(1, n):
            if data[i] & 0xC0 == 0x80:
                special.add(i)
    if not special or n < 2:
        return 0
    free = (n - 1) - len(special)
    return ((1 << len(special)) - 1) << free


def shard_enum(shard, nshards, tier, seed, scratch):
    stats = Stats()
    failures, seen = [], set()
    maxn = 6
    drv = jsdriver.Driver()
    try:
        batch = []
        counter = 0
        cfgs = [dict(encoding=enc, delim=d, policy=p, comment_prefix=c, has_header=False)
                for enc in ('utf-8', 'binary') for p, d in POLICIES for c in (None, '#')]
        hdr_cfgs = [dict(encoding='utf-8', delim=',', policy=p, comment_prefix='#', has_header=True) for p, d in POLICIES]

        def flush():
            for cfg in cfgs + hdr_cfgs:
                if cfg['encoding'] == 'binary' and cfg['comment_prefix'] is None and cfg['policy'] == 'simple':
                    continue
                run_jobs(drv, batch, cfg, stats, failures, seen, 'enum')
            for d in batch:
                stats.nontrivial_counted += count_nontrivial(d, 'binary') * (len(cfgs) + len(hdr_cfgs) - 1)
        for n in range(0, maxn + 1):
            for tup in itertools.product(ALPHABET, repeat=n):
                counter += 1
                if counter % nshards != shard:
                    continue
                batch.append(''.join(tup).encode())
                if len(batch) >= 150:
                    flush()
                    batch = []
        if batch:
            flush()
        if tier == 'thorough':
            # n = 7 for the stream-specific configurations
            cfgs7 = [dict(encoding='utf-8', delim=',', policy='quoted_rfc', comment_prefix='#', has_header=False), dict(encoding='utf-8', delim=',', policy='quoted', comment_prefix=None, has_header=False),
                     dict(encoding='binary', delim=',', policy='simple', comment_prefix='#', has_header=True)]
            batch = []
            for tup in itertools.product(ALPHABET, repeat=7):
                counter += 1
                if counter % nshards != shard:
                    continue
                batch.append(''.join(tup).encode())
                if len(batch) >= 150:
                    for cfg in cfgs7:
                        run_jobs(drv, batch, cfg, stats, failures, seen, 'enum')
                    for d in batch:
                        stats.nontrivial_counted += count_nontrivial(d, 'binary') * len(cfgs7)
                    batch = []
            for cfg in cfgs7:
                if batch:
                    run_jobs(drv, batch, cfg, stats, failures, seen, 'enum')
            maxn = 7
    finally:
        drv.close()
    stats.samples = [{'bytes': 'a,"\\r\\n#a', 'partitions': 63, 'policies': [p for p, _ in POLICIES]}]
    return {'stats': stats.export(), 'failures': failures, 'extra': {'exhaustive': True, 'max_input_bytes': maxn}}


def shard_samples(shard, nshards, tier, seed, scratch):
    stats = Stats()
    failures, seen = [], set()
    drv = jsdriver.Driver()
    try:
        for s in UTF8_SAMPLES:
            data = s.encode('utf-8')
            if tier == 'quick':
                data = data[:12]
                data = data.decode('utf-8', errors='ignore').encode('utf-8')
            for p, d in POLICIES:
                for c in (None, '#'):
                    for h in (False, True):
                        cfg = dict(encoding='utf-8', delim=d, policy=p, comment_prefix=c, has_header=h)
                        run_jobs(drv, [data], cfg, stats, failures, seen, 'utf8-samples')
                        stats.nontrivial_counted += count_nontrivial(data, 'utf-8')
                        # bulk reading of the same bytes == reference
                        path = os.path.join(scratch, 'c20_sample.csv')
                        with open(path, 'wb') as f:
                            f.write(data)
                        got_bulk = norm(drv.call(dict(cfg, cmd='read_csv', mode='bulk', path=path)))
                        exp = expected(data.decode('utf-8'), d, p, c, h, '\ufeff')
                        stats.evaluations += 1
                        if got_bulk != exp and ('bulk', p) not in seen:
                            seen.add(('bulk', p))
                            failures.append({'leg': 'utf8-samples', 'clause': 'bulk-vs-reference', 'detail': {'hex': data.hex(), 'cfg': cfg, 'got': got_bulk, 'expected': exp}, 'case': {'kind': 'bytes', 'hex': data.hex(), 'cfg': cfg}})
            stats.samples.append({'utf8_sample': data.decode('utf-8'), 'bytes': len(data), 'partitions': 1 << (len(data) - 1)})
        for data in BAD_SAMPLES:
            for p, d in POLICIES:
                cfg = dict(encoding='utf-8', delim=d, policy=p, comment_prefix=None, has_header=False)
                run_jobs(drv, [data], cfg, stats, failures, seen, 'invalid-utf8')
            stats.bump('invalid-utf8-samples')
    finally:
        drv.close()
    return {'stats': stats.export(), 'failures': failures, 'extra': {'exhaustive': True}}


def big_file_cases():
    """(name, bytes) whose interesting token straddles offset 65536."""
    out = []
    line = b'abcdefgh,"q,1",xyz\r\n'      # 20 bytes
    for shift in (-4, -3, -2, -1, 0, 1, 2, 3, 4):
        for token_name, token in (('4-byte', '𝄞'.encode()), ('3-byte', '€'.encode()), ('2-byte', 'é'.encode()), ('crlf', b'\r\n'), ('quoted', b'"a,\r\nb"'), ('bom-like', '\ufeff'.encode())):
            target = 65536 + shift
            body = bytearray()
            while len(body) + len(line) <= target - 8:
                body += line
            pad = target - len(body) - 1
            body += b'p' * max(pad - 1, 0) + b','
            # the token starts one byte before the target offset so that it straddles it
            body += token
            body += b',tail\r\n' + line * 3
            out.append(('%s@%+d' % (token_name, shift), bytes(body)))
    big = bytearray()
    i = 0
    while len(big) < 200 * 1024:
        big += ('r%d,"é€𝄞 %d","multi\r\nline",x\r\n' % (i, i)).encode()
        i += 1
    out.append(('200KiB', bytes(big)))
    # many short records per stream chunk (tens of thousands of records delivered by one 'data' event)
    out.append(('short-rows', b''.join(b'%d,a\n' % i for i in range(40000))))
    out.append(('one-char-rows', b''.join(b'%c\r\n' % (97 + i % 26) for i in range(140000))))      # 140000 records in one chunk when the chunk size is 1 MiB
    out.append(('quoted-record-spanning-15000-lines', ('a,"' + '\r\n'.join('l%d,""q""' % i for i in range(15000)) + '",z\r\nnext,row,here\r\n').encode()))
    return out


N_EXTRA_BIG = 4
# stream chunks of mixed sizes (a short chunk directly before / after a long one, sizes around 1 KiB, single bytes between long chunks)
MIXED_PIECES = [[20, 1 << 20], [40000, 1, 1 << 20], [7, 3000, 1, 1024, 100, 65536], [1023, 1024, 1025, 1], [1, 70000]]


def shard_files_huge(tier):
    return True


def shard_files(shard, nshards, tier, seed, scratch):
    stats = Stats()
    failures, seen = [], set()
    drv = jsdriver.Driver()
    try:
        cases = big_file_cases()
        if tier == 'quick':
            cases = cases[:-N_EXTRA_BIG][::3] + cases[-N_EXTRA_BIG:]
        for name, data in cases:
            path = os.path.join(scratch, 'c20_big.csv')
            with open(path, 'wb') as f:
                f.write(data)
            text = data.decode('utf-8')
            for policy in ('quoted_rfc', 'simple') if 'quoted' not in name else ('quoted_rfc',):
                cfg = dict(encoding='utf-8', delim=',', policy=policy, comment_prefix=None, has_header=False)
                exp = expected(text, ',', policy, None, False, '\ufeff')
                got_file = norm(drv.call(dict(cfg, cmd='read_csv', mode='file', path=path)))
                got_bulk = norm(drv.call(dict(cfg, cmd='read_csv', mode='bulk', path=path)))
                got_small = norm(drv.call(dict(cfg, cmd='read_csv', mode='file', path=path, high_water_mark=4099)))
                got_huge = norm(drv.call(dict(cfg, cmd='read_csv', mode='file', path=path, high_water_mark=1 << 20)))
                mixed = []
                for sizes in MIXED_PIECES:
                    mixed.append(('pieces-' + '/'.join(str(x) for x in sizes), norm(drv.call(dict(cfg, cmd='read_csv', mode='file-pieces', path=path, piece_sizes=sizes)))))
                stats.evaluations += 4 + len(mixed)
                stats.nontrivial_counted += 3 + len(mixed)
                for label, got in [('createReadStream-default', got_file), ('bulk', got_bulk), ('createReadStream-4099', got_small), ('createReadStream-1MiB', got_huge)] + mixed:
                    if got != exp:
                        key = ('files', label)
                        if key not in seen:
                            seen.add(key)
                            d = {'file': name, 'policy': policy, 'mode': label, 'size': len(data)}
                            if got[0] == 'error':
                                d['got'] = got
                            else:
                                d['n_records'] = (len(got[0]), len(exp[0]) if exp[0] != 'error' else None)
                                d['first_diff'] = next((i for i, (x, y) in enumerate(zip(got[0], exp[0])) if x != y), None)
                            failures.append({'leg': 'files', 'clause': 'large-file-' + label, 'detail': d, 'case': {'kind': 'bigfile', 'name': name, 'policy': policy}})
            stats.bump('big-files')
        # a file larger than 16 MiB (2^24 bytes) with a 3-byte and a 4-byte character straddling the 2^24 offset: bulk reading,
        # default streaming and 1 MiB chunks agree (count, digest, first / last / boundary records) and equal the known content
        if shard_files_huge(tier):
            line = 'r%07d,' + 'x' * 1000 + '\n'        # 1010 bytes per ordinary line
            nlines = 16700
            for tok in ('\u20ac', '\U0001d11e'):
                parts, size, boundary_index = [], 0, None
                for i in range(nlines):
                    l = (line % i).encode()
                    if boundary_index is None and size + len(l) > (1 << 24) - 1:
                        pad = (1 << 24) - 1 - size - len('b,') 
                        l = ('b,' + 'p' * pad + tok + 'tail\n').encode()
                        boundary_index = i
                    parts.append(l)
                    size += len(l)
                data = b''.join(parts)
                path = os.path.join(scratch, 'c20_huge.csv')
                with open(path, 'wb') as f:
                    f.write(data)
                cfg = dict(encoding='utf-8', delim=',', policy='quoted', comment_prefix=None, has_header=False, summary=True, at_indices=[boundary_index, boundary_index + 1])
                res = {}
                for label, extra in (('bulk', dict(mode='bulk')), ('createReadStream-default', dict(mode='file')), ('createReadStream-1MiB', dict(mode='file', high_water_mark=1 << 20))):
                    res[label] = drv.call(dict(cfg, cmd='read_csv', path=path, **extra))
                    stats.evaluations += 1
                    stats.nontrivial_counted += 1
                os.unlink(path)
                want_boundary = ['b', 'p' * ((1 << 24) - 1 - (1010 * boundary_index) - 2) + tok + 'tail']
                for label, r in res.items():
                    bad = None
                    if r.get('error') is not None:
                        bad = {'error': r['error']}
                    elif r['n_records'] != nlines or r['first'] != ['r0000000', 'x' * 1000] or r['at'][0] != want_boundary or r['warnings']:
                        bad = {'n_records': r['n_records'], 'expected_records': nlines, 'boundary_record_ok': r['at'][0] == want_boundary, 'warnings': r['warnings']}
                    elif r['sha1'] != res['bulk'].get('sha1') and res['bulk'].get('error') is None:
                        bad = {'digest_differs_from_bulk': True}
                    if bad is not None and ('huge', label) not in seen:
                        seen.add(('huge', label))
                        failures.append({'leg': 'files', 'clause': 'file-over-16MiB-' + label, 'detail': dict(bad, size=len(data), character=tok, straddles_offset=1 << 24), 'case': {'kind': 'huge-file'}})
            stats.bump('files-over-16MiB')
        # two stream readers alive at once (an input and a join table being read together): A is cut inside a multi-byte
        # character / a CRLF pair, B is delivered completely in between; each must read as it does alone
        samples = ['é,1\r\n€,2\r\n', 'a,𝄞\n"x\r\ny",é\n', '\ufeffk,v\nñ,1\n', 'a\r\nb\r\n']
        for ta in samples:
            da = ta.encode('utf-8')
            for tb in samples:
                db = tb.encode('utf-8')
                for cut in range(1, len(da)):
                    for cuts_b in ([], [1], list(range(1, len(db)))):
                        cfg = dict(encoding='utf-8', delim=',', policy='quoted_rfc', comment_prefix=None)
                        r = drv.call(dict(cfg, cmd='read_two_streams', hex_a=da.hex(), cuts_a=[cut], hex_b=db.hex(), cuts_b=cuts_b, first_a=1))
                        stats.evaluations += 1
                        stats.nontrivial_counted += 1
                        for side, text in (('a', ta), ('b', tb)):
                            exp = expected(text, ',', 'quoted_rfc', None, False, '\ufeff')
                            res = r.get(side)
                            got = norm(dict(res, header=None)) if res is not None else ('error', 'driver', str(r.get('error')))
                            if got != exp and ('two-readers', side) not in seen:
                                seen.add(('two-readers', side))
                                failures.append({'leg': 'files', 'clause': 'two-concurrent-readers-' + side, 'detail': {'a': ta, 'b': tb, 'cut_in_a_after_byte': cut, 'cuts_b': cuts_b, 'got': got, 'expected': exp},
                                                 'case': {'kind': 'two-readers', 'a': ta, 'b': tb, 'cut': cut, 'cuts_b': cuts_b}})
        stats.bump('two-concurrent-readers')
        stats.samples.append({'big_files': [n for n, _ in cases][:6], 'modes': ['fs.createReadStream (64 KiB chunks)', 'bulk', 'fs.createReadStream highWaterMark=4099', 'fs.createReadStream highWaterMark=1MiB', 'Readable.from(pieces of mixed sizes %s)' % MIXED_PIECES]})
    finally:
        drv.close()
    return {'stats': stats.export(), 'failures': failures}


def replay(case, clause=None):
    from ..common import Stats as S
    stats, failures, seen = S(), [], set()
    drv = jsdriver.Driver()
    try:
        if case.get('kind') == 'bytes':
            run_jobs(drv, [bytes.fromhex(case['hex'])], case['cfg'], stats, failures, seen, 'replay')
        else:
            import tempfile, shutil
            d = tempfile.mkdtemp(prefix='vf_c20_')
            try:
                r = shard_files(0, 1, 'thorough', 1, d)
                failures = [f for f in r['failures']]
            finally:
                shutil.rmtree(d, ignore_errors=True)
    finally:
        drv.close()
    if failures:
        raise Violation(failures[0]['clause'], failures[0]['detail'])


def probe_known(k):
    return False
