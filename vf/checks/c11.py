# C11 - Field splitting implements the documented quoting dialect exactly.
from __future__ import annotations

import io
import itertools

from hypothesis import strategies as st

from ..common import Stats, run_hypothesis, Violation
from .. import refcsv, engine

from rbql import rbql_csv, csv_utils  # noqa: E402  (working tree, via engine/common loader)

PROP = 'C11'
LEVEL = 'exploration'
RULE = ('Exhaustive: every line up to length 7 (quick) / 9 (thorough) over the class alphabet {quote, delimiter, space, other} for delimiters '
        ', ; TAB | (and {quote, space=delimiter, other} for the space delimiter), plus {quote, delimiter, space, other, first char of the delimiter} '
        'up to length 5/7 for multi-character delimiters (::, ###, ab, <>, and two that contain a space but do not begin with one: ", " and "a b"), policies quoted and quoted_rfc; each line goes through csv_utils.smart_split '
        '(both preserve modes) and through rbql_csv.CSVRecordIterator over a one-line stream. Random relabelling of every "other" symbol by independent '
        'Unicode characters; Hypothesis long lines (<=200 chars, full Unicode) for all five policies. Oracle = hand-written reference splitter '
        '(fields, warning <=> an unquoted field contains a quote), dlm.join(preserved) == line, unquote(preserved[i]) == fields[i]; simple / '
        'whitespace / monocolumn against str.split(d), split on runs of spaces, identity. Non-trivial = line contains a quote and a delimiter; '
        'enumerated lines are distinct by construction.'
        ' Later additions: delimiters containing a space, special characters at the first / last position, every call repeated (pure function), cores embedded in lines of > 64 and > 256 characters, runs of 15-65 spaces around quoted fields, plain policies on lines of 257 / 300 / 1100 characters.')
ASSUMPTIONS = ['lines handed to the record iterator contain no CR/LF (line breaking is C12); direct smart_split calls also get LF / CR as ordinary characters', 'delimiter is not the double quote; a multi-character delimiter contains no quote and does not begin with a space (optional spaces after a closing quote would be ambiguous)']

SINGLE = [',', ';', '\t', '|']
MULTI = ['::', '###', 'ab', '<>', ', ', 'a b']


def plan(tier):
    return {'stages': [('shard_enum', 12), ('shard_random', 4)], 'timeout_s': 3000}


def check_line(line, dlm, policy, via_iterator=True):
    ctx = {'line': line, 'delim': dlm, 'policy': policy}
    rf, rw, rflags = refcsv.split_quoted(line, dlm, False)
    got, gw = csv_utils.smart_split(line, dlm, policy, False)
    if got != rf:
        raise Violation('fields', dict(ctx, got=got, expected=rf))
    if bool(gw) != bool(rw):
        raise Violation('warning-flag', dict(ctx, got=gw, expected=rw))
    pres, pw = csv_utils.smart_split(line, dlm, policy, True)
    if bool(pw) != bool(rw):
        raise Violation('warning-flag-preserve', dict(ctx, got=pw, expected=rw))
    if dlm.join(pres) != line:
        raise Violation('preserve-rejoin', dict(ctx, preserved=pres))
    if len(pres) != len(rf):
        raise Violation('preserve-count', dict(ctx, preserved=pres, expected=rf))
    for p, f, fl in zip(pres, rf, rflags):
        if (refcsv.unquote(p) if fl else p) != f:
            raise Violation('preserve-unquote', dict(ctx, preserved=pres, expected=rf))
        if fl and csv_utils.unquote_field(p) != f:
            raise Violation('unquote_field', dict(ctx, preserved=p, expected=f))
    # splitting is a pure function of (line, delimiter, policy): the same call again gives the same answer
    again, againw = csv_utils.smart_split(line, dlm, policy, False)
    pagain, pagainw = csv_utils.smart_split(line, dlm, policy, True)
    if again != got or bool(againw) != bool(gw) or pagain != pres or bool(pagainw) != bool(pw):
        raise Violation('second-call-differs', dict(ctx, first=[got, gw, pres, pw], second=[again, againw, pagain, pagainw]))
    if via_iterator and line != '':
        it_check(line, dlm, policy, rf, rw)


def it_check(line, dlm, policy, rf, rw):
    ctx = {'line': line, 'delim': dlm, 'policy': policy, 'path': 'CSVRecordIterator'}
    try:
        it = rbql_csv.CSVRecordIterator(io.StringIO(line), None, dlm, policy)
        recs = it.get_all_records()
        warns = it.get_warnings()
        err = None
    except Exception as e:
        recs, warns, err = None, None, engine.err_info(e)
    if policy == 'quoted_rfc' and rw:
        if err is None or err['cls'] != 'RbqlIOHandlingError':
            raise Violation('rfc-defective-line-not-rejected', dict(ctx, got=recs, error=err))
        return
    if err is not None:
        raise Violation('iterator-error', dict(ctx, error=err))
    if recs != [rf]:
        raise Violation('iterator-fields', dict(ctx, got=recs, expected=[rf]))
    has_w = any('Inconsistent double quote escaping' in w for w in warns)
    if has_w != bool(rw):
        raise Violation('iterator-warning', dict(ctx, warnings=warns, expected=rw))
    if len(warns) != (1 if rw else 0):
        raise Violation('iterator-extra-warning', dict(ctx, warnings=warns))


def enum_jobs(tier):
    """(delim, alphabet, maxlen) triples."""
    q = tier == 'quick'
    jobs = []
    for d in SINGLE:
        jobs.append((d, ['"', d, ' ', 'x'], 7 if q else 9))
    jobs.append((' ', ['"', ' ', 'x'], 8 if q else 10))
    for d in MULTI:
        jobs.append((d, list(dict.fromkeys(['"', d, ' ', 'x', d[0], d[-1]])), 5 if q else 7))
    return jobs


def shard_enum(shard, nshards, tier, seed, scratch):
    stats = Stats()
    failures = []
    seen_clauses = set()
    counter = 0
    for d, alphabet, maxlen in enum_jobs(tier):
        for n in range(0, maxlen + 1):
            for tup in itertools.product(alphabet, repeat=n):
                counter += 1
                if counter % nshards != shard:
                    continue
                line = ''.join(tup)
                nt = '"' in tup and d in tup
                for policy in ('quoted', 'quoted_rfc'):
                    stats.evaluations += 1
                    if nt:
                        stats.nontrivial_counted += 1
                        if len(stats.samples) < 3 and n >= 5 and counter % 97 == 0:
                            stats.samples.append({'line': line, 'delim': d, 'policy': policy, 'fields': refcsv.split_quoted(line, d)[0]})
                    try:
                        check_line(line, d, policy, via_iterator=True)
                    except Violation as v:
                        key = (policy, v.clause)
                        if key not in seen_clauses:
                            seen_clauses.add(key)
                            failures.append({'leg': 'enum', 'clause': v.clause, 'detail': v.detail, 'case': {'kind': 'line', 'line': line, 'delim': d, 'policy': policy}, '_len': n})
        stats.bump('enumerated-delim-' + repr(d))
    # records with multi-line fields reach the splitter with line breaks inside: LF / CR are ordinary characters for it (direct calls only)
    for d in (',', ' ', '::'):
        alphabet = ['"', d, ' ', 'x', '\n', '\r'] if d != ' ' else ['"', ' ', 'x', '\n', '\r']
        for n in range(1, (6 if tier == 'quick' else 7) + 1):
            for tup in itertools.product(alphabet, repeat=n):
                if '\n' not in tup and '\r' not in tup:
                    continue
                counter += 1
                if counter % nshards != shard:
                    continue
                line = ''.join(tup)
                for policy in ('quoted', 'quoted_rfc'):
                    stats.evaluations += 1
                    if '"' in tup and d in tup:
                        stats.nontrivial_counted += 1
                    try:
                        check_line(line, d, policy, via_iterator=False)
                    except Violation as v:
                        key = (policy, 'nl', v.clause)
                        if key not in seen_clauses:
                            seen_clauses.add(key)
                            failures.append({'leg': 'enum-newline', 'clause': v.clause, 'detail': v.detail, 'case': {'kind': 'line-direct', 'line': line, 'delim': d, 'policy': policy}})
        stats.bump('enumerated-with-line-breaks-delim-' + repr(d))
    # long lines (beyond any length threshold of a fast path / cache): every short core embedded in a line of > 64 characters,
    # at the start, at the end and followed by a final delimiter
    for d in SINGLE[:2] + [' ', '::', ', ']:
        alphabet = (['"', d, ' ', 'x'] if d != ' ' else ['"', ' ', 'x'])
        for n in range(1, 5):
            for tup in itertools.product(alphabet, repeat=n):
                counter += 1
                if counter % nshards != shard:
                    continue
                core = ''.join(tup)
                pad = 'x' * (33 if counter % 3 else 261)      # beyond 32 / 64 and beyond 256 characters
                for line in (pad + d + core + d + pad, core + d + pad + d + pad + d, pad + d + pad + d + core, core + d + pad + pad):
                    for policy in ('quoted', 'quoted_rfc'):
                        stats.evaluations += 1
                        if '"' in core:
                            stats.nontrivial_counted += 1
                        try:
                            check_line(line, d, policy, via_iterator=True)
                        except Violation as v:
                            key = (policy, 'long', v.clause)
                            if key not in seen_clauses:
                                seen_clauses.add(key)
                                failures.append({'leg': 'enum-long-lines', 'clause': v.clause, 'detail': v.detail, 'case': {'kind': 'line', 'line': line, 'delim': d, 'policy': policy}})
        stats.bump('enumerated-long-lines-delim-' + repr(d))
    # long runs of spaces around quoted fields (column-aligned CSV): 15 / 16 / 17 / 33 / 64 / 65 spaces before and after
    for d in (',', '::'):
        for k in (0, 1, 15, 16, 17, 33, 64, 65):
            for m in (0, 1, 15, 16, 17, 64):
                for core in ('"a' + d + 'b"', '"Smith' + d + ' ""John' + '"' * 3, '""', '"x"'):
                    for line in ('id7' + d + ' ' * k + core + ' ' * m + d + '42', ' ' * k + core + ' ' * m, 'x' + d + ' ' * k + core + ' ' * m, ' ' * k + core + ' ' * m + d + ' ' * k + core):
                        counter += 1
                        if counter % nshards != shard:
                            continue
                        for policy in ('quoted', 'quoted_rfc'):
                            stats.evaluations += 1
                            stats.nontrivial_counted += 1
                            try:
                                check_line(line, d, policy, via_iterator=True)
                            except Violation as v:
                                key = (policy, 'space-runs', v.clause)
                                if key not in seen_clauses:
                                    seen_clauses.add(key)
                                    failures.append({'leg': 'enum-space-runs', 'clause': v.clause, 'detail': v.detail, 'case': {'kind': 'line', 'line': line, 'delim': d, 'policy': policy}})
    stats.bump('enumerated-space-runs')
    # the plain policies on long lines: every short core of spaces / delimiters behind 257, 300 and 1100 ordinary characters
    for policy, d in (('whitespace', ' '), ('simple', ','), ('simple', '::'), ('simple', ' '), ('monocolumn', '')):
        alphabet = [' ', 'x', '"'] if policy != 'simple' or d == ' ' else [d, 'x', ' ']
        for n in range(1, 5):
            for tup in itertools.product(alphabet, repeat=n):
                counter += 1
                if counter % nshards != shard:
                    continue
                core = ''.join(tup)
                for padlen in (257, 300, 1100):
                    for line in ('x' * padlen + core + 'y', 'x' * padlen + ' ' + core, core + 'x' * padlen + core):
                        stats.evaluations += 1
                        stats.nontrivial_counted += 1
                        try:
                            check_random({'kind': 'long', 'line': line, 'delim': d, 'policy': policy})
                        except Violation as v:
                            key = (policy, 'long-plain', v.clause)
                            if key not in seen_clauses:
                                seen_clauses.add(key)
                                det = dict(v.detail)
                                det['line'] = repr(det.get('line'))[:120] + '... (%d characters)' % len(line)
                                for k in ('got', 'expected', 'preserved'):
                                    if k in det:
                                        det[k] = repr(det[k])[-200:]
                                failures.append({'leg': 'enum-long-plain', 'clause': v.clause, 'detail': det, 'case': {'kind': 'long', 'line': line, 'delim': d, 'policy': policy}})
        stats.bump('enumerated-long-plain-' + policy + repr(d))
    # particular "other" characters at the first / last position of the line (BOM, no-break and exotic spaces, control characters, the
    # other quote, backslash, comment sign): for the splitter they are ordinary characters
    SPECIAL_OTHERS = ['\ufeff', '\xa0', '\t', '\x0b', '\x0c', '\u2003', '\u3000', '\x00', '\x1f', '\x85', '\\', "'", '#', '\xef\xbb\xbf', '\U0001d11e']
    for d in (',', '::', ' '):
        alphabet = ['"', d, ' ', 'x'] if d != ' ' else ['"', ' ', 'x']
        for n in range(0, 5):
            for tup in itertools.product(alphabet, repeat=n):
                counter += 1
                if counter % nshards != shard:
                    continue
                core = ''.join(tup)
                for sc in SPECIAL_OTHERS:
                    for line in (sc + core, core + sc, sc + core + sc):
                        for policy in ('quoted', 'quoted_rfc'):
                            stats.evaluations += 1
                            if '"' in core:
                                stats.nontrivial_counted += 1
                            try:
                                check_line(line, d, policy, via_iterator=not (line.startswith('\ufeff') or line.startswith('\xef\xbb\xbf')))   # the reader (not the splitter) strips a leading BOM
                            except Violation as v:
                                key = (policy, 'special', v.clause)
                                if key not in seen_clauses:
                                    seen_clauses.add(key)
                                    failures.append({'leg': 'enum-special-chars', 'clause': v.clause, 'detail': v.detail, 'case': {'kind': 'line-direct', 'line': line, 'delim': d, 'policy': policy}})
        stats.bump('enumerated-special-first/last-char-delim-' + repr(d))
    # keep the shortest failing line per clause (enumeration is by increasing length per delimiter)
    for f in failures:
        f.pop('_len', None)
    return {'stats': stats.export(), 'failures': failures, 'extra': {'exhaustive': True}}


# ---------------------------------------------------------------------------------------------
# random legs

OTHER = st.characters(blacklist_categories=('Cs',), blacklist_characters='\r\n" ')


@st.composite
def st_relabel(draw):
    d = draw(st.sampled_from(SINGLE + [' '] + MULTI + ['§', '→', '§§']))
    n = draw(st.integers(0, 12))
    syms = draw(st.lists(st.sampled_from(['q', 'd', 's', 'o', 'o']), min_size=n, max_size=n))
    others = [draw(OTHER.filter(lambda c: c not in d)) for s in syms if s == 'o']
    return {'kind': 'relabel', 'delim': d, 'syms': ''.join(syms), 'others': others, 'policy': draw(st.sampled_from(['quoted', 'quoted_rfc']))}


def build_relabel(case, others):
    out = []
    it = iter(others)
    for s in case['syms']:
        out.append({'q': '"', 'd': case['delim'], 's': ' '}.get(s) or next(it))
    return ''.join(out)


@st.composite
def st_long(draw):
    d = draw(st.sampled_from(SINGLE + [' '] + MULTI + ['§', '→', '§§']))
    policy = draw(st.sampled_from(['quoted', 'quoted_rfc', 'simple', 'whitespace', 'monocolumn']))
    if policy == 'whitespace':
        d = ' '
    piece = st.one_of(st.just('"'), st.just('""'), st.just(d), st.just(' '), st.just(d[0]), st.text(OTHER, min_size=1, max_size=6),
                      st.sampled_from(['\t', '\x0b', '\x0c', '\x1c', '\x85', '\xa0', '\u2003', '\u3000', 'a\tb', 'x\xa0y']),
                      st.sampled_from(['"a"', '" "', 'a""b', '"%s"' % d, ' "x" ']))
    parts = draw(st.lists(piece, min_size=0, max_size=40))
    return {'kind': 'long', 'delim': d, 'policy': policy, 'line': ''.join(parts)[:200]}


def check_random(case, stats=None):
    d, policy = case['delim'], case['policy']
    if case['kind'] == 'relabel':
        line = build_relabel(case, case['others'])
        base = build_relabel(case, ['x'] * len(case['others']))
        if stats is not None:
            stats.case(case, '"' in line and d in line, ['relabel'], sample={'line': line, 'delim': d, 'policy': policy})
        check_line(line, d, policy)
        # interchangeability: the split structure of the relabelled line equals that of the class line
        f1, w1, fl1 = refcsv.split_quoted(base, d)
        g, gw = csv_utils.smart_split(line, d, policy, True)
        gb, gbw = csv_utils.smart_split(base, d, policy, True)
        if [len(x) for x in g] != [len(x) for x in gb] or bool(gw) != bool(gbw):
            raise Violation('class-abstraction', {'line': line, 'class_line': base, 'delim': d, 'got': g, 'class_got': gb})
        return
    line = case['line']
    if stats is not None:
        stats.case(case, ('"' in line and d in line), ['long-' + policy], sample=case)
    if policy in ('quoted', 'quoted_rfc'):
        check_line(line, d, policy)
        return
    got, gw = csv_utils.smart_split(line, d, policy, False)
    if policy == 'simple':
        exp = line.split(d)
    elif policy == 'whitespace':
        exp = [x for x in line.split(' ') if x != '']
    else:
        exp = [line]
    if got != exp or gw:
        raise Violation('plain-split-' + policy, {'line': line, 'delim': d, 'got': got, 'expected': exp, 'warning': gw})
    if got != refcsv.smart_split(line, d, policy)[0]:
        raise Violation('plain-split-vs-reference-' + policy, {'line': line, 'delim': d})
    if policy == 'whitespace':
        pres, _ = csv_utils.smart_split(line, d, policy, True)
        if [p.strip(' ') for p in pres] != exp or (exp and ' '.join(pres) != line):
            raise Violation('whitespace-preserve', {'line': line, 'preserved': pres})
    if line != '':
        it = rbql_csv.CSVRecordIterator(io.StringIO(line), None, d, policy)
        recs = it.get_all_records()
        if recs != [exp] or it.get_warnings():
            raise Violation('iterator-plain-' + policy, {'line': line, 'delim': d, 'got': recs, 'expected': [exp], 'warnings': it.get_warnings()})


def shard_random(shard, nshards, tier, seed, scratch):
    total = 6000 if tier == 'quick' else 120000
    stats = Stats()
    fails = run_hypothesis(st.one_of(st_relabel(), st_long()), lambda c: check_random(c, stats), max(1, total // nshards), seed, shrink_budget=300 if tier == 'quick' else 2000)
    for f in fails:
        f['leg'] = 'random'
    return {'stats': stats.export(), 'failures': fails}


def replay(case, clause=None):
    if case.get('kind') == 'line-direct':
        check_line(case['line'], case['delim'], case['policy'], via_iterator=False)
    elif case.get('kind') == 'line':
        check_line(case['line'], case['delim'], case['policy'])
    else:
        check_random(case)


def probe_known(k):
    return False
