# Python side of the node batch driver (js/driver.js): one long-lived node process per Driver.
from __future__ import annotations

import json
import os
import shutil
import subprocess

from .common import HarnessError, REPO, VERIF_ROOT

NODE = shutil.which('node')


class Driver(object):
    def __init__(self):
        if NODE is None:
            raise HarnessError('node is not on PATH')
        env = dict(os.environ, VERIF_REPO=REPO)
        self.p = subprocess.Popen([NODE, os.path.join(VERIF_ROOT, 'js', 'driver.js')], stdin=subprocess.PIPE, stdout=subprocess.PIPE,
                                  stderr=subprocess.DEVNULL, env=env, text=True, encoding='utf-8', bufsize=1)
        r = self.call({'cmd': 'ping'})
        if not r.get('pong') or os.path.abspath(r.get('repo')) != REPO:
            raise HarnessError('node driver did not start correctly: %r' % (r,))

    def call(self, req):
        try:
            self.p.stdin.write(json.dumps(req, ensure_ascii=True) + '\n')
            self.p.stdin.flush()
            line = self.p.stdout.readline()
        except (BrokenPipeError, OSError) as e:
            raise HarnessError('node driver died: %r' % (e,))
        if not line:
            raise HarnessError('node driver closed its output (request cmd=%s)' % req.get('cmd'))
        resp = json.loads(line)
        if isinstance(resp, dict) and 'driver_error' in resp:
            raise HarnessError('node driver error: %s' % resp['driver_error'])
        return resp

    def query_table(self, query, A, B=None, a_names=None, b_names=None):
        r = self.call({'cmd': 'query_table', 'query': query, 'A': A, 'B': B, 'a_names': a_names, 'b_names': b_names})
        return r

    def query_batch(self, items):
        return self.call({'cmd': 'query_batch', 'items': items})['results']

    def close(self):
        try:
            self.p.stdin.close()
            self.p.wait(timeout=10)
        except Exception:
            self.p.kill()


def unclean(v):
    """Undo js/driver.js clean(): tagged values back to Python-side stand-ins."""
    if isinstance(v, list):
        return [unclean(x) for x in v]
    if isinstance(v, dict):
        if '__undefined__' in v:
            return Undefined
        if '__float__' in v:
            return float(v['__float__'].replace('Infinity', 'inf').replace('NaN', 'nan'))
        if '__object__' in v:
            return {k: unclean(x) for k, x in v['__object__'].items()}
        return v
    return v


class _Undefined(object):
    def __repr__(self):
        return 'undefined'


Undefined = _Undefined()
