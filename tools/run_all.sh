#!/bin/bash
# usage: tools/run_all.sh quick|thorough  - runs every registered check in turn, prints exit status and wall time
tier=${1:-quick}
cd "$(dirname "$0")/.."
for i in $(seq -w 1 20); do
  s=$(date +%s)
  /venv/bin/python -W ignore -m vf.run C$i --tier $tier > /tmp/run_all_C$i.log 2>&1
  rc=$?
  e=$(date +%s)
  echo "C$i rc=$rc wall=$((e-s))s $(grep -c '^VIOLATION' /tmp/run_all_C$i.log) violations; $(grep '^property=' /tmp/run_all_C$i.log | cut -c1-160)"
  grep '^VIOLATION\|^violation\|^HARNESS' /tmp/run_all_C$i.log | cut -c1-300
  rm -f /tmp/run_all_C$i.log
done
