# C19 - The JavaScript engine has the same relational semantics as the reference.
from __future__ import annotations

import copy
import re

from hypothesis import strategies as st

from ..common import Stats, run_hypothesis, Violation
from .. import qgen, refmodel, jsdriver, engine

PROP = 'C19'
LEVEL = 'exploration'
RULE = ('Hypothesis-generated queries from the language-neutral expression vocabulary (field references in all spellings, literals, None-safe concatenation, '
        'NR/NF integer arithmetic, comparisons on same-typed ASCII strings / ints, like, conditional, && / ||) rendered to JavaScript, over string tables '
        '(rectangular and ragged; pools with prefix pairs such as a / "a b" / a! and integer keys of different digit counts), covering select / where / '
        'order / distinct / distinct count / top / limit / aggregates (integer-valued data) / all join kinds / update / except / unnest, plus failing queries '
        '(language-neutral poison under a conditional, missing fields, STRICT LEFT mismatch, text-level mistakes). Oracle = reference interpreter on the same '
        'structured query (result table, header by the C07 rule, error class and record number) and caller arrays unchanged; a Python-engine vs JS-engine '
        'differential localises a disagreement. Non-trivial = as C01-C05 for the corresponding shape (>=2 records and a split WHERE / star / unnest / ragged; '
        'a tie or duplicate or cutting bound; >=2 groups with a non-COUNT aggregate; multi-match and unmatched join keys; an UPDATE that splits the table).'
        ' Later additions: exponent / signed / fraction-only numeric strings, zero / negative-heavy aggregate data, the shared-table-objects stage (8 x 10 x 8 query / edit / query sequences, both engines), wide-header cases, sort + dedup + truncate at scale.')
ASSUMPTIONS = ['string order is compared on ASCII only (UTF-16 vs code-point order is a language difference)', 'JS numbers are doubles: aggregate data are integer-valued',
               'queries run strictly one after another (rbql-js keeps its context in a module global, documented)']


def plan(tier):
    return {'stages': [('shard', 13), ('shard_js_values', 2), ('shard_shared', 1)], 'timeout_s': 3000}


NUMS = ['1', '2', '3', '10', '9', '100', '-4', '0', '25', '7']
# numeric strings that Python (int() / float()) and JavaScript (Number()) convert to the same number
NUMS_NEG = ['0', '-1', '-3', '0', '-10', '-4', '0', '2']
NUMS_DEC = ['1.5', '2e3', '5e-1', '1.5e2', '+5', '.5', '-0.25', '3.0', ' 7', '7 ', '1E2', '-.5', '10', '9', '0', '1e-05', '+2.5', '4.']
KEYS = ['a', 'a b', 'a!', 'b', 'B', '', 'ab']


@st.composite
def st_agg_case(draw):
    n = draw(st.integers(0, 10))
    col1 = [draw(st.sampled_from(KEYS[:draw(st.integers(2, len(KEYS)))])) for _ in range(n)]
    mode = draw(st.integers(0, 5))
    dec = mode <= 1
    if mode == 2:
        col2 = [draw(st.sampled_from(NUMS_NEG)) for _ in range(n)]       # zeros and negatives: extrema and sums that pass through 0
    else:
        col2 = [draw(st.sampled_from(NUMS_DEC if (dec and draw(st.integers(0, 2)) != 0) else NUMS)) for _ in range(n)]
    col3 = [draw(st.sampled_from(['9', '10', '100', '2'])) for _ in range(n)]
    A = [list(r) for r in zip(col1, col2, col3)]
    hdr = draw(st.booleans())
    a_names = ['k', 'v', 'w'] if hdr else None

    def fld(i):
        sps = ['aN', 'a[N]'] + (['a.n', 'a["n"]'] if a_names else [])
        return qgen.field_expr('a', i, draw(st.sampled_from(sps)), a_names)

    group = None
    gk = draw(st.integers(0, 4))
    if gk == 1:
        group = [fld(0)]
    elif gk == 2:
        f = fld(2)
        group = [qgen.mk('int(%s)' % f['py'], 'parseInt(%s)' % f['js'], 'int')]
    elif gk == 3:
        group = [fld(0), fld(2)]
    elif gk == 4:
        f = fld(0)
        group = [qgen.mk('len(%s)' % f['py'], '%s.length' % f['js'], 'int')]
    items = []
    for _ in range(draw(st.integers(1, 4))):
        k = draw(st.integers(0, 9))
        if k <= 6:
            fn = draw(st.sampled_from(qgen.AGG_FUNCS))
            sp = draw(st.sampled_from([fn, fn.lower()]))
            if fn == 'COUNT':
                if draw(st.booleans()):
                    it = {'k': 'agg', 'fn': fn, 'sp': sp, 'star': True, 'startext': draw(st.sampled_from(['*', ' * ']))}
                else:
                    it = {'k': 'agg', 'fn': fn, 'sp': sp, 'e': fld(draw(st.integers(0, 2)))}
            elif fn in ('ARRAY_AGG', 'ANY_VALUE'):
                it = {'k': 'agg', 'fn': fn, 'sp': sp, 'e': fld(draw(st.integers(0, 2)))}
            else:
                form = draw(st.integers(0, 3))
                ci = draw(st.sampled_from([1, 2]))
                f = fld(ci)
                if form == 0 and not (dec and ci == 1):
                    arg = qgen.mk('int(%s) * 2' % f['py'], 'parseInt(%s) * 2' % f['js'], 'int')
                elif form == 1:
                    arg = qgen.mk('NR', 'NR', 'int')
                else:
                    arg = f
                it = {'k': 'agg', 'fn': fn, 'sp': sp, 'e': arg}
        elif k == 7 and group is not None:
            it = {'k': 'expr', 'e': group[0]}
        elif k == 8:
            it = {'k': 'expr', 'e': qgen.mk("'const'", "'const'", 'str')}
        else:
            it = {'k': 'expr', 'e': fld(0)}
        if draw(st.integers(0, 5)) == 0:
            it['alias'] = draw(st.sampled_from(qgen.ALIAS_POOL))
            it['as_kw'] = draw(st.sampled_from(['AS', 'as']))
        items.append(it)
    q = {'type': 'select', 'items': items, 'group': group}
    wk = draw(st.integers(0, 4))
    if wk == 1:
        q['where'] = qgen.mk('NR % 2', 'NR % 2', 'int')
    elif wk == 2:
        f = fld(0)
        q['where'] = qgen.mk("%s != 'a'" % f['py'], "%s != 'a'" % f['js'], 'bool')
    elif wk == 3:
        q['where'] = qgen.mk('NR < 0', 'NR < 0', 'bool')
    if draw(st.integers(0, 3)) == 0:
        q['top'] = {'n': draw(st.integers(0, 4)), 'form': draw(st.sampled_from(['TOP', 'LIMIT']))}
    return {'A': A, 'B': None, 'a_names': a_names, 'b_names': None, 'q': q, 'shape': 'aggregate'}


@st.composite
def st_failing(draw):
    base = draw(qgen.st_case_select(js=True, join_p=3, order=True, distinct=False, top=False, where_p=3, unnest=False, except_p=0, max_rows=6))
    if not base['A']:
        return dict(base, shape='failing')
    k = draw(st.integers(1, len(base['A'])))
    q = copy.deepcopy(base['q'])
    poison = {'py': "(nosuchfn(NR) if NR == %d else 'ok')" % k, 'js': "(NR == %d ? nosuchfn(NR) : 'ok')" % k, 'name': None, 'ty': 'any'}
    where = {'py': "(nosuchfn(NR) if NR == %d else True)" % k, 'js': "(NR == %d ? nosuchfn(NR) : true)" % k, 'name': None, 'ty': 'bool'}
    place = draw(st.sampled_from(['select', 'where', 'order']))
    if place == 'select':
        q['items'] = q['items'] + [{'k': 'expr', 'e': poison}]
        q.pop('where', None)
    elif place == 'where':
        q['where'] = where
    else:
        q['order'] = {'keys': [poison], 'desc': False, 'asc_kw': False}
        q.pop('where', None)
    if q.get('join') and q['join']['kind'] == 'STRICT LEFT JOIN':
        q['join']['kind'] = 'LEFT JOIN'
    base['q'] = q
    base['shape'] = 'failing'
    return base


def strategy():
    sel = qgen.st_case_select(js=True, join_p=4, order=False, distinct=False, top=False, where_p=2)
    ordd = qgen.st_case_select(js=True, join_p=4, order=True, distinct=True, top=True, where_p=3, dup_heavy=True, except_p=0, max_rows=7, max_width=3)
    joins = qgen.st_case_select(js=True, force_join=True, order=True, distinct=True, top=True, where_p=3, except_p=0, dup_heavy=True, max_rows=6, max_width=3)
    upd = qgen.st_case_update(js=True, join_p=4)
    updj = qgen.st_case_update(js=True, join_p=1, multi_match=True)
    exc = qgen.st_case_select(js=True, join_p=0, except_p=1, distinct=True, top=True, order=True)
    from . import c04
    return st.one_of(sel, ordd, joins, st_agg_case(), upd, updj, st_failing(), exc, c04.st_int_key_join(), qgen.st_case_typed(js=True))


JS_ERR = {'parsing': ('RbqlParsingError', 'SyntaxError'), 'runtime': ('RbqlRuntimeError',)}


def values_match(got, exp):
    """JSON-decoded JS value vs reference value."""
    if isinstance(exp, refmodel.AggResult):
        if exp.fn == 'ARRAY_AGG':
            return isinstance(got, list) and len(got) == len(exp.value) and all(values_match(g, e) for g, e in zip(got, exp.value))
        if exp.fn == 'ANY_VALUE':
            return any(values_match(got, m) for m in exp.members)
        if exp.fn in ('MIN', 'MAX', 'SUM', 'MEDIAN') and isinstance(got, (int, float)) and not isinstance(got, bool):
            # doubles: integer results come back as JSON integers
            e2 = refmodel.AggResult(exp.fn, exp.value, exact_int=False, scale=exp.scale)
            return e2.matches(got)
        return exp.matches(got)
    if isinstance(exp, bool) or isinstance(got, bool):
        return isinstance(exp, bool) and isinstance(got, bool) and exp == got
    if isinstance(exp, (int, float)):
        return isinstance(got, (int, float)) and got == exp
    if isinstance(exp, (list, tuple)):
        return isinstance(got, list) and len(got) == len(exp) and all(values_match(g, e) for g, e in zip(got, exp))
    return type(got) is type(exp) and got == exp


def compare(got, exp):
    if len(got) != len(exp):
        return 'record count %d != %d' % (len(got), len(exp))
    for i, (g, e) in enumerate(zip(got, exp)):
        if len(g) != len(e):
            return 'record %d: width %d != %d' % (i + 1, len(g), len(e))
        for j, (x, y) in enumerate(zip(g, e)):
            if not values_match(x, y):
                return 'record %d col %d: got %r, expected %r' % (i + 1, j + 1, x, y.describe() if isinstance(y, refmodel.AggResult) else y)
    return None


def shape_of(case):
    q = case['q']
    if case.get('shape'):
        return case['shape']
    if q['type'] == 'update':
        return 'update'
    if q.get('order') or q.get('distinct') or q.get('top'):
        return 'order/distinct/top'
    return 'select'


def check_case(case, drv, stats=None):
    q = case['q']
    try:
        tjs = qgen.render(q, 'js')
    except (ValueError, TypeError):
        if stats is not None:
            stats.bump('not-language-neutral-skipped')
        return
    try:
        exp, exp_err = refmodel.ref_run(case), None
    except refmodel.RefError as e:
        exp, exp_err = None, e
    A, B = copy.deepcopy(case['A']), copy.deepcopy(case.get('B'))
    js = drv.query_table(tjs, A, B, case.get('a_names'), case.get('b_names'))
    out = jsdriver.unclean(js['out'])
    if stats is not None:
        shape = shape_of(case)
        cl = ['shape-' + shape]
        nt = False
        if exp is not None:
            mc = exp.get('match_counts') or []
            if q.get('join'):
                cl.append('join')
                if any(c >= 2 for c in mc):
                    cl.append('join-multi-match')
            if shape == 'aggregate':
                nt = exp.get('agg') and exp['n_groups'] >= 2 and any(it['k'] == 'agg' and it['fn'] != 'COUNT' for it in q['items'])
                if q.get('group') is not None:
                    cl.append('group-by')
            elif shape == 'update':
                nt = 0 < exp['n_updated'] < len(case['A'])
            elif shape == 'order/distinct/top':
                rows = exp.get('rows') or []
                keys = [repr(k) for k, _ in rows]
                nt = len(set(keys)) < len(keys) or len(exp['out']) < len(rows)
                if q.get('order') and any(it['k'] == 'unnest' for it in q['items']):
                    cl.append('order+unnest')
            else:
                nt = len(case['A']) >= 2 and (0 < exp.get('n_pass', 0) < exp.get('n_pairs', 0) or any(it['k'] != 'expr' for it in q['items']) or len(set(len(r) for r in case['A'])) > 1)
        else:
            cl.append('ref-says-error-' + exp_err.kind)
            nt = exp_err.nr is not None and exp_err.nr > 1
        stats.case(case, bool(nt), cl, sample={'js_query': tjs, 'A': case['A'], 'B': case.get('B'), 'a_names': case.get('a_names'), 'out': js['out'][:5], 'header': js['header'], 'error': js['error']})
    ctx = {'js_query': tjs, 'A': case['A'], 'B': case.get('B'), 'a_names': case.get('a_names'), 'b_names': case.get('b_names')}
    # caller's arrays unmodified - on every path
    if js.get('output_aliases_input') or js.get('rows_replaced'):
        raise Violation('js-output-aliases-caller-array', dict(ctx, aliases=js.get('output_aliases_input'), rows_replaced=js.get('rows_replaced')))
    if jsdriver.unclean(js['A_after']) != case['A'] or (case.get('B') is not None and jsdriver.unclean(js['B_after']) != case['B']):
        raise Violation('js-caller-array-modified', dict(ctx, A_after=js['A_after'], B_after=js['B_after']))
    if exp_err is not None:
        if q.get('top') and exp_err.kind == 'runtime':
            return
        if js['error'] is None:
            raise Violation('js-missing-error', dict(ctx, expected=str(exp_err), got=js['out'][:5]))
        if js['error']['cls'] not in JS_ERR[exp_err.kind]:
            raise Violation('js-wrong-error-class', dict(ctx, expected=exp_err.kind, got=js['error']))
        if exp_err.kind == 'runtime' and exp_err.nr is not None and not re.search(r'record %d(?![0-9])' % exp_err.nr, js['error']['msg']):
            raise Violation('js-error-record-number', dict(ctx, expected_nr=exp_err.nr, got=js['error']))
        return
    if js['error'] is not None:
        raise Violation('js-unexpected-error:' + js['error']['cls'], dict(ctx, error=js['error'], expected=refmodel.describe_records(exp['out'])[:5], python_engine=python_side(case)))
    diff = compare(out, exp['out'])
    if diff is not None:
        raise Violation('js-records', dict(ctx, diff=diff, got=js['out'][:8], expected=refmodel.describe_records(exp['out'])[:8], python_engine=python_side(case)))
    ragged = len(set(len(r) for r in case['A'])) > 1
    if (js['header'] or None) != (exp['header'] or None):
        raise Violation('js-header', dict(ctx, got=js['header'], expected=exp['header'], python_engine=python_side(case)))


def python_side(case):
    """Localising differential: what the Python engine says for the same structured query."""
    try:
        r = engine.run_table(qgen.render(case['q'], 'py'), copy.deepcopy(case['A']), copy.deepcopy(case.get('B')), case.get('a_names'), case.get('b_names'))
        return {'out': repr(r['out'][:5]), 'header': r['header'], 'error': r['error']}
    except Exception as e:   # pragma: no cover
        return {'harness': repr(e)}


def shard(shard, nshards, tier, seed, scratch):
    total = 20000 if tier == 'quick' else 160000
    stats = Stats()
    drv = jsdriver.Driver()
    try:
        failures = run_hypothesis(strategy(), lambda c: check_case(c, drv, stats), max(1, total // nshards), seed, shrink_budget=250 if tier == 'quick' else 1500)
        if shard == 1 and not failures:
            from .. import largecases
            for which in ('select', 'order', 'join', 'update', 'aggenum', 'wide-header', 'join-huge'):
                for case in largecases.large_cases(which):
                    if not qgen.renderable(case['q'], 'js'):
                        continue
                    try:
                        check_case(case, drv, None)
                        stats.bump('large-case')
                        stats.evaluations += 1
                    except Violation as v:
                        d = dict(v.detail or {})
                        for k in ('A', 'B', 'got', 'expected'):
                            d.pop(k, None)
                        failures.append({'clause': 'large-' + v.clause, 'detail': d, 'case': {'kind': 'large', 'which': which}})
                        break
    finally:
        drv.close()
    return {'stats': stats.export(), 'failures': failures}


# ---------------------------------------------------------------------------------------------
# JavaScript-only values (NaN, Infinity, undefined): the sort / dedup / truncate composition is checked on
# rbql-js outputs alone (no Python counterpart exists for these values)

JS_VALUE_EXPRS = ['parseInt(a1)', '10 / parseInt(a2)', 'undefined', 'a1', 'a2', 'NR % 2', 'parseFloat(a1) * 2', '[a1, parseInt(a2)]', 'Number(a2)', 'a1.length / parseInt(a2)', 'null']


@st.composite
def st_js_values(draw):
    n = draw(st.integers(0, 7))
    A = [[draw(st.sampled_from(['1', 'x', '0', '2', '', '1'])), draw(st.sampled_from(['0', '2', 'y', '2']))] for _ in range(n)]
    items = draw(st.lists(st.sampled_from(JS_VALUE_EXPRS), min_size=1, max_size=3))
    mode = draw(st.sampled_from([None, 'distinct', 'count', 'count']))
    top = draw(st.sampled_from([None, None, 0, 1, 2, 3]))
    order = draw(st.sampled_from([None, None, 'NR % 2', '-NR']))
    return {'kind': 'js-values', 'A': A, 'items': items, 'mode': mode, 'top': top, 'order': order, 'desc': draw(st.booleans())}


def _json_class(v):
    # what JSON.stringify makes of a value inside an array (rbql-js identifies records by it)
    if isinstance(v, dict) and ('__float__' in v or '__undefined__' in v):
        return None
    if isinstance(v, list):
        return [_json_class(x) for x in v]
    return v


def check_js_values(case, drv, stats=None):
    sel = ', '.join(case['items'])
    tail = (' ORDER BY %s%s' % (case['order'], ' DESC' if case['desc'] else '')) if case['order'] else ''
    plain_q = 'SELECT ' + sel + tail
    head = 'SELECT ' + ('TOP %d ' % case['top'] if case['top'] is not None else '') + {None: '', 'distinct': 'DISTINCT ', 'count': 'DISTINCT COUNT '}[case['mode']]
    full_q = head + sel + tail
    plain = drv.query_table(plain_q, copy.deepcopy(case['A']))
    full = drv.query_table(full_q, copy.deepcopy(case['A']))
    if stats is not None:
        flat = json_dumps(plain['out'])
        stats.case(case, ('__float__' in flat or '__undefined__' in flat) and case['mode'] is not None, ['js-values', 'js-values-%s' % case['mode']], sample={'js_query': full_q, 'A': case['A'], 'out': full['out'][:4]})
    if plain['error'] is not None or full['error'] is not None:
        if (plain['error'] is None) != (full['error'] is None):
            raise Violation('js-values-error-differs', {'plain_query': plain_q, 'query': full_q, 'plain': plain['error'], 'full': full['error']})
        return
    seq = plain['out']
    if case['mode']:
        uniq, counts, keys = [], [], []
        for r in seq:
            k = json_dumps(_json_class(r))
            if k in keys:
                counts[keys.index(k)] += 1
            else:
                keys.append(k)
                uniq.append(r)
                counts.append(1)
        seq = uniq if case['mode'] == 'distinct' else [[c] + u for c, u in zip(counts, uniq)]
    if case['top'] is not None:
        seq = seq[:case['top']]
    if full['out'] != seq:
        raise Violation('js-values-composition', {'query': full_q, 'plain_query': plain_q, 'A': case['A'], 'got': full['out'][:6], 'expected_from_plain_output': seq[:6]})


def json_dumps(v):
    import json
    return json.dumps(v, sort_keys=True)


def shard_js_values(shard, nshards, tier, seed, scratch):
    total = 1500 if tier == 'quick' else 30000
    stats = Stats()
    drv = jsdriver.Driver()
    try:
        failures = run_hypothesis(st_js_values(), lambda c: check_js_values(c, drv, stats), max(1, total // nshards), seed, shrink_budget=200 if tier == 'quick' else 1500)
    finally:
        drv.close()
    for f in failures:
        f['leg'] = 'js-values'
    return {'stats': stats.export(), 'failures': failures}


# ---------------------------------------------------------------------------------------------
# the caller keeps its table objects and edits them between queries: every query sees the current content

SHARED_QUERIES = ['select a1, b2 join b on a1 == b1', 'select a1, b2, bNR left join b on a1 == b1', 'select a1, b2 join b on a1 == b1 && a2 == b2' , 'select a1, b1 join b on NR == bNR',
                  'select b2, count(*) join b on a1 == b1 group by b2', 'update a2 = b2 join b on a1 == b1', 'select distinct a1', 'select a1 order by a2 desc limit 2']
SHARED_MUTATIONS = [{'table': 'B', 'op': 'replace-row', 'row': 0, 'value': ['k2', 'z']}, {'table': 'B', 'op': 'edit-cell', 'row': 1, 'col': 0, 'value': 'k3'}, {'table': 'B', 'op': 'edit-cell', 'row': 0, 'col': 1, 'value': 'q'},
                    {'table': 'B', 'op': 'push-row', 'value': ['k1', 'p2']}, {'table': 'B', 'op': 'pop-row'}, {'table': 'B', 'op': 'swap-rows'}, {'table': 'A', 'op': 'edit-cell', 'row': 0, 'col': 0, 'value': 'k2'},
                    {'table': 'A', 'op': 'replace-row', 'row': 1, 'value': ['k1', 'q']}, {'table': 'A', 'op': 'swap-rows'}, None]


def shard_shared(shard, nshards, tier, seed, scratch):
    stats = Stats()
    failures = []
    drv = jsdriver.Driver()
    try:
        for qi, q1 in enumerate(SHARED_QUERIES):
            for mi, mut in enumerate(SHARED_MUTATIONS):
                for q2 in SHARED_QUERIES:
                    A = [['k1', 'p'], ['k2', 'q'], ['k3', 'p']]
                    B = [['k1', 'p'], ['k2', 'q']]
                    steps = [{'query': q1}, {'mutate': mut, 'query': q2}, {'query': q1}]
                    r = drv.call({'cmd': 'query_shared_sequence', 'A': A, 'B': B, 'steps': steps})
                    stats.evaluations += 1
                    stats.nontrivial_counted += 1 if mut is not None else 0
                    for k, res in enumerate(r['results']):
                        if res['shared'] != res['fresh'] and not failures:
                            failures.append({'leg': 'shared-tables', 'clause': 'js-result-depends-on-table-object-identity', 'detail': {'queries': [q1, q2, q1], 'edit_before_second_query': mut, 'step': k + 1, 'tables_now': {'A': res['A'], 'B': res['B']},
                                                                                                                                'with_callers_objects': res['shared'], 'with_fresh_copies': res['fresh']},
                                             'case': {'kind': 'shared', 'q1': q1, 'q2': q2, 'mut': mut}})
                    # the Python engine, same sequence on the caller's list objects
                    pyq = lambda t: t.replace('&&', 'and')
                    for k, (m, q) in enumerate([(None, q1), (mut, q2), (None, q1)]):
                        if m is not None:
                            T = A if m['table'] == 'A' else B
                            if m['op'] == 'replace-row':
                                T[m['row']] = list(m['value'])
                            elif m['op'] == 'edit-cell':
                                T[m['row']][m['col']] = m['value']
                            elif m['op'] == 'push-row':
                                T.append(list(m['value']))
                            elif m['op'] == 'pop-row':
                                T.pop()
                            else:
                                T[0], T[-1] = T[-1], T[0]
                        shared = engine.run_table(pyq(q), A, B, None, None)
                        fresh = engine.run_table(pyq(q), copy.deepcopy(A), copy.deepcopy(B), None, None)
                        if (shared['out'], shared['error']) != (fresh['out'], fresh['error']) and not failures:
                            failures.append({'leg': 'shared-tables', 'clause': 'py-result-depends-on-table-object-identity', 'detail': {'queries': [q1, q2, q1], 'edit_before_second_query': mut, 'step': k + 1, 'with_callers_objects': shared, 'with_fresh_copies': fresh},
                                             'case': {'kind': 'shared', 'q1': q1, 'q2': q2, 'mut': mut}})
        stats.bump('shared-table-sequences', stats.evaluations)
        stats.samples.append({'sequence': [SHARED_QUERIES[0], SHARED_MUTATIONS[0], SHARED_QUERIES[0]]})
    finally:
        drv.close()
    return {'stats': stats.export(), 'failures': failures[:1], 'extra': {'exhaustive': True}}


def replay(case, clause=None):
    if case.get('kind') == 'shared':
        r = shard_shared(0, 1, 'quick', 1, None)
        if r['failures']:
            raise Violation(r['failures'][0]['clause'], r['failures'][0]['detail'])
        return
    if case.get('kind') == 'large':
        from .. import largecases
        drv = jsdriver.Driver()
        try:
            for c in largecases.large_cases(case['which']):
                if qgen.renderable(c['q'], 'js'):
                    check_case(c, drv, None)
        finally:
            drv.close()
        return
    if case.get('kind') == 'js-values':
        drv = jsdriver.Driver()
        try:
            check_js_values(case, drv)
        finally:
            drv.close()
        return
    drv = jsdriver.Driver()
    try:
        check_case(case, drv)
    finally:
        drv.close()


def probe_known(k):
    return False
