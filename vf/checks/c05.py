# C05 - UPDATE emits every record once, changing only assigned fields of matching rows.
from __future__ import annotations

from hypothesis import strategies as st

from ..common import Stats, run_hypothesis, Violation
from .. import qgen, relcheck, refmodel

PROP = 'C05'
LEVEL = 'exploration'
RULE = ('Hypothesis-generated tables (ragged allowed) x UPDATE [SET] / UPDATE a SET lists of 1-3 assignments with targets in all spellings '
        '(aN, a[N], a.name, a["name"], a[\'name\']) and right-hand sides reading other assigned fields, NU, NR, b-fields x optional WHERE x '
        'optional INNER/LEFT JOIN (<=1 match per key, and >1 => must fail). Oracle = reference UPDATE: one output record per input record, '
        'equal to the input except at assigned indices of qualifying records where it equals the right-hand side evaluated in the pre-update '
        'environment; assigning to a missing field => RbqlRuntimeError naming the record and field. Frame condition checked explicitly. '
        'Non-trivial = >=2 assignments one of which reads another assigned field, and WHERE/JOIN splits the table (some records updated, some not).'
        ' Later additions: keyword-argument calls and raw white-space literals in right-hand sides, deterministic permutations of named targets, 2600-record cases.')
ASSUMPTIONS = ['right-hand sides are generated to be evaluable', 'LEFT JOIN partner of an unmatched record is the all-None record (C04)']


def plan(tier):
    return {'stages': [('shard', 16)], 'timeout_s': 3000}


def strategy():
    return st.one_of(qgen.st_case_update(join_p=4, multi_match=False), qgen.st_case_update(join_p=4, multi_match=False), qgen.st_case_update(join_p=2, multi_match=True))


def check_case(case, stats=None):
    q = case['q']
    tup = relcheck.run_both(case, 'table')
    text, exp, exp_err, got, A, B = tup
    if stats is not None:
        cl = ['assignments-%d' % len(q['assign'])]
        targets = set(a['idx'] for a in q['assign'])
        reads_other = False
        for a in q['assign']:
            nm = a['e'].get('name')
            if nm and 'f' in nm and nm['f'][0] == 'a' and nm['f'][1] in targets and nm['f'][1] != a['idx']:
                reads_other = True
        if reads_other:
            cl.append('reads-other-target')
        if any('NU' in a['e']['py'] for a in q['assign']):
            cl.append('NU')
        for a in q['assign']:
            cl.append('target-' + a['target']['sp'])
        if q.get('where') is not None:
            cl.append('where')
        if q.get('join'):
            cl.append('join-' + q['join']['kind'].replace(' ', '_'))
        if q.get('set_kw'):
            cl.append('SET')
        if q.get('update_a'):
            cl.append('UPDATE-a-SET')
        if exp_err is not None:
            cl.append('ref-says-error')
        split = exp is not None and 0 < exp['n_updated'] < len(case['A'])
        if split:
            cl.append('split')
        if len(set(len(r) for r in case['A'])) > 1:
            cl.append('ragged')
        nt = len(q['assign']) >= 2 and reads_other and split
        stats.case(case, nt, cl, sample={'query': text, 'A': case['A'], 'B': case.get('B'), 'a_names': case.get('a_names'), 'out': got['out'][:6], 'error': got['error']})
    relcheck.assert_rel(case, {'records', 'fresh'}, 'table', tup)
    if exp is not None and got['error'] is None:
        # explicit frame condition, independent of the reference values
        if len(got['out']) != len(case['A']):
            raise Violation('update-record-count', {'query': text})
        targets = set(a['idx'] for a in q['assign'])
        for i, (o, r) in enumerate(zip(got['out'], case['A'])):
            if len(o) != len(r):
                raise Violation('update-record-width', {'query': text, 'record': i + 1})
            for j, (x, y) in enumerate(zip(o, r)):
                if j not in targets and not refmodel.same_value(x, y):
                    raise Violation('update-frame', {'query': text, 'record': i + 1, 'field': j + 1})


def check_named_permutations():
    """The same UPDATE text (named targets) over every column order of one table, run back to back in
    one interpreter: the expectation comes from a by-name lookup, independent of the engine."""
    import itertools
    base_names = ['k', 'n', 'tags']
    rows_by_name = [{'k': 'a', 'n': '1', 'tags': 'x'}, {'k': 'b', 'n': '2', 'tags': 'y'}, {'k': 'a', 'n': '3', 'tags': 'z'}]
    queries = [("update a.n = 'N', a[\"k\"] = a.tags + '!'", lambda r: dict(r, n='N', k=r['tags'] + '!')),
               ("update set a['tags'] = a.k where a.n != '2'", lambda r: dict(r, tags=r['k']) if r['n'] != '2' else dict(r)),
               ("update a.k = a.n, a.n = a.k", lambda r: dict(r, k=r['n'], n=r['k']))]
    perms = list(itertools.permutations(base_names))
    n = 0
    for query, fn in queries:
        for names in perms + perms[::-1]:
            A = [[r[c] for c in names] for r in rows_by_name]
            exp = [[fn(r)[c] for c in names] for r in rows_by_name]
            got = engine_run(query, A, list(names))
            n += 1
            if got['error'] is not None or got['out'] != exp or got['header'] != list(names):
                raise Violation('named-target-depends-on-previous-query', {'query': query, 'column_order': list(names), 'got': got['out'], 'expected': exp, 'error': got['error']})
    return n


def engine_run(query, A, names):
    from .. import engine
    return engine.run_table(query, [list(r) for r in A], None, names)


def shard(shard, nshards, tier, seed, scratch):
    total = 20000 if tier == 'quick' else 200000
    stats = Stats()
    failures = run_hypothesis(strategy(), lambda c: check_case(c, stats), max(1, total // nshards), seed, shrink_budget=300 if tier == 'quick' else 2000)
    failures += _large(shard, stats, 'update')
    if shard == 0:
        try:
            n = check_named_permutations()
            stats.bump('named-target-permutation-runs', n)
        except Violation as v:
            failures.append({'clause': v.clause, 'detail': v.detail, 'case': {'kind': 'named-permutations'}})
    return {'stats': stats.export(), 'failures': failures}


def replay(case, clause=None):
    if isinstance(case, dict) and case.get('kind') == 'large':
        f = _large(1, Stats(), case['which'])
        if f:
            raise Violation(f[0]['clause'], f[0]['detail'])
        return
    if case.get('kind') == 'named-permutations':
        check_named_permutations()
        return
    check_case(case)


def probe_known(k):
    return False


def _large(shard, stats, which):
    """Deterministic large tables (thousands of records) judged by the same reference."""
    from .. import largecases
    out = []
    if shard != 1:
        return out
    for case in largecases.large_cases(which):
        try:
            relcheck.assert_rel(case, {'records'}, 'table')
            stats.bump('large-case')
            stats.evaluations += 1
        except Violation as v:
            d = dict(v.detail or {})
            for k in ('got', 'expected', 'after', 'before'):
                if k in d:
                    d[k] = d[k][:3] if isinstance(d[k], list) else d[k]
            out.append({'clause': 'large-' + v.clause, 'detail': d, 'case': {'kind': 'large', 'which': which}})
            break
    return out
