#!/usr/bin/env python3
"""Sensitivity testing: apply single textual mutations to a scratch copy of the tree and
confirm that the named check turns red (VERIF_REPO redirects the loader; no registered
command sets it).  usage: tools/muttest.py [--only ID[,ID]] [--name substr] [--tier quick]"""
import argparse, json, os, shutil, subprocess, sys, tempfile, time

ROOT = os.path.dirname(os.path.dirname(os.path.abspath(__file__)))

def main():
    ap = argparse.ArgumentParser()
    ap.add_argument('--only', default=None)
    ap.add_argument('--name', default=None)
    ap.add_argument('--tier', default='quick')
    ap.add_argument('--catalogue', default=os.path.join(ROOT, 'tools', 'mutants.json'))
    args = ap.parse_args()
    muts = json.load(open(args.catalogue))
    only = set(args.only.split(',')) if args.only else None
    results = []
    for m in muts:
        if only and not (set(m['props']) & only):
            continue
        if args.name and args.name not in m['name']:
            continue
        scratch = tempfile.mkdtemp(prefix='vf_mut_')
        try:
            for d in ('rbql-py', 'rbql-js'):
                shutil.copytree(os.path.join('/repo', d), os.path.join(scratch, d))
            path = os.path.join(scratch, m['file'])
            src = open(path).read()
            if src.count(m['old']) < 1:
                print('STALE   %-50s (pattern not found)' % m['name']); results.append((m['name'], 'stale')); continue
            src = src.replace(m['old'], m['new'], m.get('count', 1))
            open(path, 'w').write(src)
            for ex in m.get('extra', []):      # cooperating second site
                p2 = os.path.join(scratch, ex['file'])
                s2 = open(p2).read()
                assert s2.count(ex['old']) >= 1, 'extra pattern not found'
                open(p2, 'w').write(s2.replace(ex['old'], ex['new'], 1))
            for prop in m['props']:
                if only and prop not in only:
                    continue
                env = dict(os.environ, VERIF_REPO=scratch, VERIF_SEED=os.environ.get('VERIF_SEED', '1'))
                t0 = time.time()
                p = subprocess.run(['/venv/bin/python', '-W', 'ignore', '-m', 'vf.run', prop, '--tier', args.tier], cwd=ROOT, env=env, capture_output=True, text=True)
                viol = [l for l in p.stdout.splitlines() if l.startswith('violation:')]
                status = {0: 'MISSED', 1: 'caught', 2: 'HARNESS'}.get(p.returncode, 'rc=%d' % p.returncode)
                if status == 'caught' and 'VIOLATION property=' not in p.stdout:
                    status = 'HARNESS'
                print('%-8s %-4s %-50s %5.1fs %s' % (status, prop, m['name'], time.time() - t0, (viol[0][:160] if viol else (p.stdout.strip().splitlines()[-1][:160] if p.stdout.strip() else p.stderr[-300:]))))
                sys.stdout.flush()
                results.append((m['name'], prop, status))
        finally:
            shutil.rmtree(scratch, ignore_errors=True)
    # evidence files were rewritten by the mutant runs: the caller re-runs the real checks afterwards
    missed = [r for r in results if r[-1] != 'caught']
    print('%d runs, %d not caught' % (len(results), len(missed)))

if __name__ == '__main__':
    main()
