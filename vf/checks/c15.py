# C15 - Broken pipes, bad bytes and errors are handled cleanly at every point.
from __future__ import annotations

import copy
import io
import os
import re
import sqlite3
import subprocess
import sys

from ..common import Stats, Violation, REPO
from .. import engine, refcsv
from ..engine import CountingIterator, TraceWriter
from ..faults import BrokenPipeAfter, BrokenPipeRaw, PiecewiseRaw, fd_snapshot

from rbql import rbql_csv, rbql_engine, rbql_sqlite  # noqa: E402

PROP = 'C15'
LEVEL = 'fault_enumeration'
RULE = ('Fault enumeration. (a) CSVWriter over a stream that raises BrokenPipeError from the k-th write() on, for EVERY k from 1 to the number of stream writes of the '
        'fault-free run (+1), x 12 query shapes (streaming, where, top, sorted, aggregated, distinct, distinct count, unnest, update, join, with header, header+sorted) '
        'x text stream / utf-8 / latin-1 raw sinks of every byte capacity (error surfaces at a flush), input through a counting iterator; plus the real CLI piped into '
        '`head -c N`. Oracle: no exception escapes, received data is a prefix of the fault-free output, at most one further input record is pulled after the first failed '
        'write (two stream-write attempts at most), nothing is accepted afterwards. (b) an invalid byte (0xFF, lone continuation 0x80, truncated lead at EOF) at EVERY byte '
        'position of valid UTF-8 files x chunk sizes 1..8 and 1024, as input and as join file: always RbqlIOHandlingError, never UnicodeDecodeError or a normal return; '
        'records read before the failure are a prefix of the records of the valid prefix. (c) /proc/self/fd (numbers and targets) before == after for every scenario '
        '(success, parsing error, runtime error at record k, IO errors, with and without join) of query_csv and query_sqlite_to_csv. (d) a user writer returning False '
        'from its k-th write, for every k, under every query shape: trace matches set_header? write* finish?, no write after a False, finish exactly once iff success. '
        'Non-trivial = a fault strictly inside the output / file (not at position 0 or the end); fault points are distinct by construction.'
        ' Later additions: empty-result query shapes, the exception held while descriptors are compared, every open() failing in turn, an owned stream over a real broken pipe, the command line reading a damaged table from standard input under four locale settings.')
ASSUMPTIONS = ['sys.stdout is swapped for a dummy while the engine runs (CSVWriter.finish may close sys.stdout after a failed flush)',
               'Python decodes through io.TextIOWrapper, so records before a bad byte are only observable when the byte lies beyond the first 8 KiB']

TABLE = [['k%d' % (i % 3), str(i), 'v,%d' % i] for i in range(1, 9)]
JOIN = [['k0', 'zero'], ['k1', 'one'], ['k1', 'uno']]
SHAPES = [
    ('streaming', 'select a1, a2', False, False),
    ('where', "select a1, a3 where int(a2) % 2 == 0", False, False),
    ('top', 'select top 5 a1, a2', False, False),
    ('sorted', 'select a1, a2 order by int(a2) desc', False, False),
    ('aggregated', 'select a1, count(*), sum(int(a2)) group by a1', False, False),
    ('distinct', 'select distinct a1', False, False),
    ('distinct-count', 'select distinct count a1', False, False),
    ('unnest', "select a2, unnest(a3.split(','))", False, False),
    ('update', "update a1 = 'z' where int(a2) > 3", False, False),
    ('join', 'select a1, b2 join b on a1 == b1', True, False),
    ('header', 'select a.name, a.num', False, True),
    ('header-sorted', 'select * order by a.num desc', False, True),
    # an empty result is still a successful run (header, no write, one finish)
    ('top-0', 'select top 0 a1, a2', False, False),
    ('limit-0-sorted', 'select a1 order by a1 limit 0', False, True),
    ('limit-0-distinct-count', 'select distinct count a1 limit 0', False, False),
    ('where-nothing', 'select a1 where NR < 0', False, False),
    ('limit-1-aggregated', 'select a1, count(*) group by a1 limit 1', False, False),
]


def plan(tier):
    return {'stages': [('shard_pipe', 4), ('shard_bytes', 5), ('shard_fd', 1), ('shard_trace', 1), ('shard_cli', 1)], 'timeout_s': 3000}


class _Dummy(io.StringIO):
    def close(self):
        pass


def run_with_sink(query, sink, encoding, use_join, use_header, close_on_finish=False):
    """Runs the query with CSVWriter over `sink`; returns (error, iterator, writer)."""
    names = ['name', 'num', 'val'] if use_header else None
    it = CountingIterator(copy.deepcopy(TABLE), names)
    reg = None
    if use_join:
        reg = rbql_engine.ListTableRegistry([rbql_engine.ListTableInfo('b', copy.deepcopy(JOIN), None)])
    real_stdout = sys.stdout
    sys.stdout = _Dummy()
    err = None
    try:
        try:
            wr = rbql_csv.CSVWriter(sink, close_on_finish, encoding, ',', 'quoted')
            engine.rbql.query(query, it, wr, [], reg)
        except BaseException as e:
            err = e
    finally:
        sys.stdout = real_stdout
    return err, it


def shard_pipe(shard, nshards, tier, seed, scratch):
    stats = Stats()
    failures, seen = [], set()

    def fail(clause, detail, case):
        if clause not in seen:
            seen.add(clause)
            failures.append({'leg': 'pipe', 'clause': clause, 'detail': detail, 'case': case})
    counter = 0
    for name, query, use_join, use_header in SHAPES:
        # fault-free run on a text stream
        full = io.StringIO()
        err, it = run_with_sink(query, full, None, use_join, use_header)
        if err is not None:
            fail('fault-free-run-fails', {'shape': name, 'error': repr(err)}, {'kind': 'pipe', 'shape': name, 'k': None, 'mode': 'text'})
            continue
        full_text = full.getvalue()
        nwrites = full_text.count('\n') * 2
        for k in range(1, nwrites + 2):
            counter += 1
            if counter % nshards != shard:
                continue
            case = {'kind': 'pipe', 'shape': name, 'k': k, 'mode': 'text'}
            sink = BrokenPipeAfter(k)
            holder = {}
            orig_write = sink.write

            def write(s, sink=sink, holder=holder, orig_write=orig_write):
                try:
                    return orig_write(s)
                except BrokenPipeError:
                    if 'pulled' not in holder:
                        holder['pulled'] = holder['it'].pulled if 'it' in holder else None
                    raise
            # the iterator is created inside run_with_sink: capture it through the counting class
            sink.write = write
            names = ['name', 'num', 'val'] if use_header else None
            it2 = CountingIterator(copy.deepcopy(TABLE), names)
            holder['it'] = it2
            reg = rbql_engine.ListTableRegistry([rbql_engine.ListTableInfo('b', copy.deepcopy(JOIN), None)]) if use_join else None
            real_stdout = sys.stdout
            sys.stdout = _Dummy()
            err = None
            try:
                try:
                    wr = rbql_csv.CSVWriter(sink, False, None, ',', 'quoted')
                    engine.rbql.query(query, it2, wr, [], reg)
                except BaseException as e:
                    err = e
            finally:
                sys.stdout = real_stdout
            stats.evaluations += 1
            if 1 < k <= nwrites:
                stats.nontrivial_counted += 1
            detail = {'shape': name, 'query': query, 'k': k, 'writes_in_fault_free_run': nwrites}
            if err is not None:
                fail('exception-escapes', dict(detail, error=repr(err)), case)
                continue
            got = sink.text()
            if not full_text.startswith(got):
                fail('not-a-prefix', dict(detail, got=got[-80:], full=full_text[:160]), case)
            if k <= nwrites:
                if sink.failed_writes == 0:
                    fail('fault-not-reached', detail, case)
                if sink.failed_writes > 2:
                    fail('keeps-writing-after-broken-pipe', dict(detail, failed_attempts=sink.failed_writes), case)
                buffering = any(x in query.lower() for x in ('order by', 'group by', 'distinct count'))   # these read all input before their first record write by design
                if not buffering and holder.get('pulled') is not None and it2.pulled - holder['pulled'] > 1:
                    fail('keeps-pulling-after-broken-pipe', dict(detail, pulled_at_failure=holder['pulled'], pulled_total=it2.pulled), case)
            elif got != full_text:
                fail('fault-free-output-differs', detail, case)
        # byte sinks: error surfaces at a flush
        for enc in ('utf-8', 'latin-1'):
            data = full_text.encode(enc)
            for limit in range(0, len(data) + 1):
                counter += 1
                if counter % nshards != shard:
                    continue
                case = {'kind': 'pipe', 'shape': name, 'k': limit, 'mode': enc}
                raw = BrokenPipeRaw(limit)
                err, it3 = run_with_sink(query, raw, enc, use_join, use_header)
                stats.evaluations += 1
                if 0 < limit < len(data):
                    stats.nontrivial_counted += 1
                detail = {'shape': name, 'query': query, 'byte_capacity': limit, 'encoding': enc, 'full_bytes': len(data)}
                if err is not None:
                    fail('exception-escapes-bytes', dict(detail, error=repr(err)), case)
                    continue
                if not data.startswith(bytes(raw.data)):
                    fail('not-a-prefix-bytes', dict(detail, got=bytes(raw.data)[-60:].decode('latin-1')), case)
                if limit >= len(data) and bytes(raw.data) != data:
                    fail('fault-free-bytes-differ', detail, case)
        stats.bump('shape-' + name)
    stats.samples = [{'shape': SHAPES[3][0], 'query': SHAPES[3][1], 'fault': 'BrokenPipeError from the k-th stream write, k = 1..N+1'},
                     {'shape': SHAPES[9][0], 'query': SHAPES[9][1], 'fault': 'raw sink of capacity c bytes, c = 0..len(output)'}]
    return {'stats': stats.export(), 'failures': failures, 'extra': {'exhaustive': True}}


# ---------------------------------------------------------------------------------------------
# (b) invalid bytes

VALID_FILES = ['k1,é,"a,b"\r\nk2,€,x\nk3,𝄞,"q""r"\n', 'a,b\nc,d\n', '\ufeffh1,h2\r\n1,ж\r\n']
BAD_BYTES = [b'\xff', b'\x80', b'\xc3', b'\xe2\x82', b'\xf0\x9d\x84']


def read_direct(data, chunk_size, policy='quoted'):
    try:
        it = rbql_csv.CSVRecordIterator(io.BytesIO(data), 'utf-8', ',', policy, chunk_size=chunk_size)
    except Exception as e:
        return [], e
    recs = []
    try:
        if it.first_record is not None and False:
            pass
        while True:
            r = it.get_record()
            if r is None:
                return recs, None
            recs.append(r)
    except Exception as e:
        return recs, e


def shard_bytes(shard, nshards, tier, seed, scratch):
    stats = Stats()
    failures, seen = [], set()

    def fail(clause, detail, case):
        if clause not in seen:
            seen.add(clause)
            failures.append({'leg': 'bytes', 'clause': clause, 'detail': detail, 'case': case})
    counter = 0
    big_prefix = ''.join('row%d,%d,"x,%d"\n' % (i, i, i) for i in range(700))      # > 8 KiB: records before the bad byte are observable
    files = [f.encode('utf-8') for f in VALID_FILES] + [big_prefix.encode()]
    for fi, data in enumerate(files):
        valid_text = data.decode('utf-8')
        positions = range(0, len(data) + 1) if fi < len(VALID_FILES) else list(range(8200, len(data) + 1, 197)) + [len(data)]
        for pos in positions:
            for bad in BAD_BYTES:
                is_lead = bad[0] >= 0xC0 and bad != b'\xff'
                if is_lead and pos != len(data):
                    continue    # a truncated lead sequence is only certainly invalid at EOF
                # inserting inside a multi-byte character still yields invalid UTF-8
                broken = data[:pos] + bad + data[pos:]
                try:
                    broken.decode('utf-8')
                    continue
                except UnicodeDecodeError:
                    pass
                for cs in ([1, 2, 3, 4, 5, 6, 7, 8, 1024] if fi < len(VALID_FILES) else [1024, 7]):
                    counter += 1
                    if counter % nshards != shard:
                        continue
                    case = {'kind': 'bytes', 'file': fi, 'pos': pos, 'bad': bad.hex(), 'chunk_size': cs}
                    recs, err = read_direct(broken, cs)
                    stats.evaluations += 1
                    if 0 < pos < len(data):
                        stats.nontrivial_counted += 1
                    detail = dict(case, file_head=valid_text[:30])
                    if err is None:
                        fail('invalid-utf8-accepted', dict(detail, records=recs[:3]), case)
                        continue
                    if isinstance(err, UnicodeDecodeError) or type(err).__name__ != 'RbqlIOHandlingError':
                        fail('raw-decoding-exception', dict(detail, error=repr(err)), case)
                        continue
                    # records produced before the failure: prefix of the records of the valid prefix
                    prefix_bytes = data[:pos]
                    try:
                        ptext = prefix_bytes.decode('utf-8')
                    except UnicodeDecodeError:
                        ptext = prefix_bytes.decode('utf-8', errors='ignore')
                    pres = refcsv.read_table(ptext, ',', 'quoted', None, True)['records']
                    if recs != pres[:len(recs)] and recs != [r for r in pres][:len(recs)]:
                        # the last record of the valid prefix may be incomplete; compare all but a possibly partial last one
                        if recs[:-1] != pres[:max(len(recs) - 1, 0)]:
                            fail('garbage-before-failure', dict(detail, records=recs[-2:], expected_prefix=pres[-2:]), case)
                    if recs and fi >= len(VALID_FILES):
                        stats.bump('records-observed-before-failure')
        stats.bump('file-%d' % fi)
    # quoted_rfc: a decode error that surfaces while the reader is inside a multi-line quoted field
    rfc_files = ['k1,"line one\nline two é\nthree",x\nk2,"a\n\nb",€\n'.encode('utf-8'), ('id,"' + 'multi\nline ' * 900 + '",end\n').encode('utf-8')]
    for fi, data in enumerate(rfc_files):
        positions = range(0, len(data) + 1) if fi == 0 else list(range(8100, len(data) + 1, 211)) + [len(data)]
        for pos in positions:
            for bad in BAD_BYTES:
                is_lead = bad[0] >= 0xC0 and bad != b'\xff'
                if is_lead and pos != len(data):
                    continue
                if is_lead:
                    broken = data.rstrip(b'\n')[:-5] + bad if fi == 0 else data[:len(data) // 2] + bad      # the input ends inside the quoted field
                else:
                    broken = data[:pos] + bad + data[pos:]
                try:
                    broken.decode('utf-8')
                    continue
                except UnicodeDecodeError:
                    pass
                for cs in ([1, 2, 3, 5, 8, 16, 1024] if fi == 0 else [1024, 4096]):
                    counter += 1
                    if counter % nshards != shard:
                        continue
                    case = {'kind': 'bytes', 'file': 'rfc-%d' % fi, 'pos': pos, 'bad': bad.hex(), 'chunk_size': cs}
                    recs, err = read_direct(broken, cs, 'quoted_rfc')
                    stats.evaluations += 1
                    stats.nontrivial_counted += 1
                    if err is None:
                        fail('invalid-utf8-accepted-rfc', dict(case, records=recs[:2]), case)
                    elif type(err).__name__ != 'RbqlIOHandlingError':
                        fail('raw-decoding-exception-rfc', dict(case, error=repr(err)), case)
        stats.bump('rfc-file-%d' % fi)
    # through query_csv: input file and join file
    src, jn, dst = os.path.join(scratch, 'b_in.csv'), os.path.join(scratch, 'b_join.csv'), os.path.join(scratch, 'b_out.csv')
    data = files[0]
    for pos in range(0, len(data) + 1):
        counter += 1
        if counter % nshards != shard:
            continue
        broken = data[:pos] + b'\xff' + data[pos:]
        for target in ('input', 'join'):
            with open(src, 'wb') as f:
                f.write(broken if target == 'input' else data)
            with open(jn, 'wb') as f:
                f.write(broken if target == 'join' else data)
            q = 'select a1, a2' if target == 'input' else 'select a1, b2 join %s on a1 == b1' % jn
            err = None
            try:
                engine.rbql.query_csv(q, src, ',', 'quoted', dst, ',', 'quoted', 'utf-8', [], False)
            except Exception as e:
                err = e
            stats.evaluations += 1
            stats.nontrivial_counted += 1 if 0 < pos < len(data) else 0
            case = {'kind': 'bytes-query_csv', 'pos': pos, 'target': target}
            if err is None or type(err).__name__ != 'RbqlIOHandlingError':
                fail('query_csv-invalid-utf8-' + target, dict(case, error=repr(err)), case)
    stats.samples = [{'file': VALID_FILES[0], 'fault': 'byte 0xFF / 0x80 inserted at every byte position; truncated lead sequences at EOF', 'chunk_sizes': [1, 2, 3, 4, 5, 6, 7, 8, 1024]}]
    return {'stats': stats.export(), 'failures': failures, 'extra': {'exhaustive': True}}


# ---------------------------------------------------------------------------------------------
# (c) file descriptors

def fd_scenarios(scratch):
    src, jn, dst = os.path.join(scratch, 'f_in.csv'), os.path.join(scratch, 'f_join.csv'), os.path.join(scratch, 'f_out.csv')
    bad, rfc = os.path.join(scratch, 'f_bad.csv'), os.path.join(scratch, 'f_rfc.csv')
    text = refcsv.write_table([['name', 'num']] + [['k%d' % i, str(i)] for i in range(6)], ',', 'quoted')
    for p, d in ((src, text.encode()), (jn, text.encode()), (bad, text.encode()[:9] + b'\xff' + text.encode()[9:]), (rfc, (text + 'x,"open\n').encode())):
        with open(p, 'wb') as f:
            f.write(d)
    sc = []
    for hdr in (False, True):
        sc += [
            ('success', 'select a1, a2', src, 'quoted', hdr), ('success-sorted', 'select * order by a1 desc', src, 'quoted', hdr),
            ('success-join', 'select a1, b2 join %s on a1 == b1' % jn, src, 'quoted', hdr), ('success-agg', 'select a1, count(*) group by a1', src, 'quoted', hdr),
            ('parse-error', 'select a1 where a1 = 1', src, 'quoted', hdr), ('parse-error-join', 'select a1 join %s on a1 == zz' % jn, src, 'quoted', hdr),
            ('syntax-error', 'select a1 +', src, 'quoted', hdr), ('no-select', 'a1', src, 'quoted', hdr),
            ('missing-join-table', 'select a1 join %s on a1 == b1' % os.path.join(scratch, 'nope.csv'), src, 'quoted', hdr),
            ('io-error-input', 'select a1', bad, 'quoted', hdr), ('io-error-join', 'select a1, b2 join %s on a1 == b1' % bad, src, 'quoted', hdr),
            ('io-error-rfc', 'select a1', rfc, 'quoted_rfc', hdr), ('io-error-rfc-join', 'select a1, b1 join %s on a1 == b1' % rfc, src, 'quoted_rfc', hdr),
            ('header-width-error', 'select distinct count *, *a1', src, 'quoted', hdr),
        ]
        for k in (1, 3, 6):
            sc.append(('runtime-error-at-%d' % k, 'select a1, 1 / (%d - NR)' % k, src, 'quoted', hdr))
            sc.append(('runtime-error-join-at-%d' % k, 'select a1, b2, 1 / (%d - NR) left join %s on a1 == b1' % (k, jn), src, 'quoted', hdr))
            sc.append(('runtime-error-sorted-at-%d' % k, 'select a1 order by 1 / (%d - NR)' % k, src, 'quoted', hdr))
    sc.append(('missing-input-file', 'select a1', os.path.join(scratch, 'nope_in.csv'), 'quoted', False))
    sc.append(('bad-delim-policy', 'select a1', src, 'whitespace', False))
    # each open() of the front-end failing in turn: input missing / a directory, output in a missing directory / a directory, join file a directory
    sc.append(('input-is-a-directory', 'select a1', scratch, 'quoted', False))
    sc.append(('output-directory-missing', 'select a1', src, 'quoted', False, os.path.join(scratch, 'no_such_dir', 'out.csv')))
    sc.append(('output-is-a-directory', 'select a1', src, 'quoted', False, scratch))
    sc.append(('input-missing-and-output-directory-missing', 'select a1', os.path.join(scratch, 'nope_in.csv'), 'quoted', False, os.path.join(scratch, 'no_such_dir', 'out.csv')))
    sc.append(('join-is-a-directory', 'select a1 join %s on a1 == b1' % scratch, src, 'quoted', False))
    return sc, dst


def shard_fd(shard, nshards, tier, seed, scratch):
    stats = Stats()
    failures, seen = [], set()
    scenarios, dst = fd_scenarios(scratch)
    outcomes = {}
    for sc in scenarios:
        name, query, path, policy, hdr = sc[:5]
        out_path = sc[5] if len(sc) > 5 else dst
        before = fd_snapshot()
        err, held = None, None
        try:
            engine.rbql.query_csv(query, path, ',', policy, out_path, ',', 'quoted', 'utf-8', [], hdr)
        except BaseException as e:
            err = type(e).__name__
            held = e     # the traceback keeps the frames (and their open file objects) alive: a file that only garbage collection would close counts as left open
        after = fd_snapshot()
        held = None
        stats.evaluations += 1
        stats.nontrivial_counted += 1
        outcomes[name] = err
        if before != after and 'query_csv-fd-leak' not in seen:
            seen.add('query_csv-fd-leak')
            leaked = {k: v for k, v in after.items() if before.get(k) != v}
            failures.append({'leg': 'fd', 'clause': 'query_csv-fd-leak', 'detail': {'scenario': name, 'query': query, 'header': hdr, 'outcome': err, 'leaked': leaked}, 'case': {'kind': 'fd', 'scenario': name}})
    # sqlite front-end
    dbp = os.path.join(scratch, 'f.sqlite')
    con = sqlite3.connect(dbp)
    con.execute('create table t (name text, num integer)')
    con.executemany('insert into t values (?, ?)', [('k%d' % i, i) for i in range(6)])
    con.execute('create table j (name text, w text)')
    con.executemany('insert into j values (?, ?)', [('k1', 'one'), ('k2', 'two')])
    con.commit()
    for name, query, table in [('sqlite-success', 'select a1, a2', 't'), ('sqlite-join', 'select a1, b2 join j on a1 == b1', 't'), ('sqlite-parse-error', 'select a1 where a1 = 1', 't'),
                               ('sqlite-runtime-error', 'select 1 / (3 - NR)', 't'), ('sqlite-no-table', 'select a1', 'nosuch'), ('sqlite-hostile-join', 'select a1 join j;drop/**/table/**/t on a1 == b1', 't'),
                               ('sqlite-bad-input-name', 'select a1', 't;x')]:
        before = fd_snapshot()
        err, held = None, None
        try:
            rbql_sqlite.query_sqlite_to_csv(query, con, table, dst, ',', 'quoted', 'utf-8', [])
        except BaseException as e:
            err = type(e).__name__
            held = e
        after = fd_snapshot()
        held = None
        stats.evaluations += 1
        stats.nontrivial_counted += 1
        outcomes[name] = err
        if before != after and 'sqlite-fd-leak' not in seen:
            seen.add('sqlite-fd-leak')
            failures.append({'leg': 'fd', 'clause': 'sqlite-fd-leak', 'detail': {'scenario': name, 'outcome': err, 'leaked': {k: v for k, v in after.items() if before.get(k) != v}}, 'case': {'kind': 'fd', 'scenario': name}})
    con.close()
    # a writer that owns its stream (close_stream_on_finish=True) over a real pipe whose reader is gone, buffered and unbuffered, with an
    # output far larger than every buffer: the query returns quietly
    for query in ('select a1, a2', 'select * order by int(a2) desc', "update a1 = 'z'", 'select a1, count(*) group by a1'):
        for bufsize in (65536, 8192, 0):
            rfd, wfd = os.pipe()
            os.close(rfd)
            stream = os.fdopen(wfd, 'wb', bufsize)
            table = [['row%d' % (i % 5000), str(i), 'v,%d' % i] for i in range(30000)]
            err = None
            try:
                wr = rbql_csv.CSVWriter(stream, True, 'utf-8', ',', 'quoted')
                engine.rbql.query(query, rbql_engine.TableIterator(table), wr, [])
            except BaseException as e:
                err = repr(e)
            try:
                stream.close()
            except BaseException:
                pass
            stats.evaluations += 1
            stats.nontrivial_counted += 1
            if err is not None and 'owned-pipe' not in seen:
                seen.add('owned-pipe')
                failures.append({'leg': 'fd', 'clause': 'exception-escapes-owned-broken-pipe', 'detail': {'query': query, 'buffer_size': bufsize, 'error': err}, 'case': {'kind': 'fd', 'scenario': 'owned-pipe'}})
    # the scenarios must really exercise all four kinds of path
    kinds = set(outcomes.values())
    for need in (None, 'RbqlParsingError', 'RbqlRuntimeError', 'RbqlIOHandlingError'):
        if need not in kinds:
            failures.append({'leg': 'fd', 'clause': 'fd-scenarios-miss-path', 'detail': {'missing': need, 'outcomes': outcomes}, 'case': {'kind': 'fd', 'scenario': None}})
    stats.samples = [{'scenario': n, 'outcome': o} for n, o in list(outcomes.items())[:8]]
    for o in outcomes.values():
        stats.bump('fd-outcome-%s' % o)
    return {'stats': stats.export(), 'failures': failures, 'extra': {'exhaustive': True}}


# ---------------------------------------------------------------------------------------------
# (d) user writer protocol

TRACE_RX = re.compile(r'^(H)?(W)*(F)?(X)?$')


def shard_trace(shard, nshards, tier, seed, scratch):
    stats = Stats()
    failures, seen = [], set()

    def fail(clause, detail, case):
        if clause not in seen:
            seen.add(clause)
            failures.append({'leg': 'trace', 'clause': clause, 'detail': detail, 'case': case})
    err_shapes = [('runtime-error', 'select a1, 1 / (4 - NR)', False, False), ('runtime-error-sorted', 'select a1 order by 1 / (4 - NR)', False, False),
                  ('parse-error', 'select a1 where a1 = 1', False, False), ('agg-error', 'select a2, count(*) group by a1', False, False)]
    for name, query, use_join, use_header in SHAPES + err_shapes:
        names = ['name', 'num', 'val'] if use_header else None
        base = engine.run_query_objects(query, copy.deepcopy(TABLE), copy.deepcopy(JOIN) if use_join else None, names, None)
        nw = len([t for t in base['trace'] if t == 'write'])
        for k in [None] + list(range(1, nw + 2)):
            r = engine.run_query_objects(query, copy.deepcopy(TABLE), copy.deepcopy(JOIN) if use_join else None, names, None, refuse_at=k)
            stats.evaluations += 1
            if k is not None and 1 < k <= nw:
                stats.nontrivial_counted += 1
            tr = r['trace']
            sym = ''.join({'set_header': 'H', 'write': 'W', 'write=False': 'F', 'finish': 'X'}[t] for t in tr)
            case = {'kind': 'trace', 'shape': name, 'k': k}
            detail = {'shape': name, 'query': query, 'refuse_at': k, 'trace': sym, 'error': r['error']}
            if not TRACE_RX.match(sym):
                fail('writer-protocol', detail, case)
            if r['error'] is None and sym.count('X') != 1:
                fail('finish-not-once-after-success', detail, case)
            if r['error'] is not None and 'X' in sym:
                fail('finish-after-failure', detail, case)
            if k is not None and k <= nw and 'F' not in sym:
                fail('refusal-not-reached', detail, case)
            if k is not None and k <= nw and r['error'] is None and r['out'] != base['out'][:k - 1]:
                fail('output-before-refusal-not-a-prefix', dict(detail, got=r['out'][-2:], full=base['out'][:k]), case)
        stats.bump('trace-shape-' + name)
    stats.samples = [{'shape': 'sorted', 'refuse_at': 3, 'expected_trace': 'H? W W F X'}]
    return {'stats': stats.export(), 'failures': failures, 'extra': {'exhaustive': True}}


# ---------------------------------------------------------------------------------------------
# real pipes through the CLI

def shard_cli(shard, nshards, tier, seed, scratch):
    stats = Stats()
    failures = []
    src = os.path.join(scratch, 'cli_in.csv')
    with open(src, 'w') as f:
        for i in range(30000):
            f.write('row%d,%d,"v,%d"\n' % (i, i, i))
    env = dict(os.environ, PYTHONPATH=os.path.join(REPO, 'rbql-py'), PYTHONWARNINGS='ignore')
    queries = ['select a1, a2', 'select * order by int(a2) desc', 'select a1, count(*) group by a1']
    for q in queries:
        for n in ([1, 4097, 70000] if tier == 'quick' else [1, 10, 4096, 4097, 65536, 70000, 200000]):
            cmd = '%s -m rbql --delim , --policy quoted --input %s --query "%s" | head -c %d | wc -c' % (sys.executable, src, q, n)
            p = subprocess.run(['bash', '-c', 'set -o pipefail; ' + cmd + '; echo "rc=${PIPESTATUS[0]}"'], capture_output=True, text=True, env=env, cwd=scratch)
            stats.evaluations += 1
            stats.nontrivial_counted += 1
            m = re.search(r'rc=(\d+)', p.stdout)
            rc = int(m.group(1)) if m else None
            stderr = p.stderr.strip()
            if rc != 0 or 'Traceback' in stderr or 'BrokenPipe' in stderr or 'Error' in stderr:
                failures.append({'leg': 'cli', 'clause': 'cli-broken-pipe', 'detail': {'cmd': cmd, 'rbql_exit': rc, 'stderr': stderr[-400:], 'stdout': p.stdout[-100:]}, 'case': {'kind': 'cli', 'query': q, 'n': n}})
                break
    # the input table on standard input with an invalid UTF-8 byte, under the locale / UTF-8-mode settings that make sys.stdin lenient
    # (errors='surrogateescape'): always an IO-handling error, whatever columns the query touches
    good = 'k1,\u00e9a,1\nk2,\u20acb,2\nk3,c,3\n'.encode('utf-8')
    if not failures:
        for pos in (0, 4, 9, len(good) - 2):
            data = good[:pos] + b'\x80' + good[pos:]
            for envx in ({}, {'LC_ALL': 'C', 'LANG': 'C'}, {'PYTHONUTF8': '1'}, {'PYTHONIOENCODING': 'utf-8:surrogateescape'}):
                for q in ('select a3', 'select a2, a1', 'select count(*)'):
                    e2 = dict(env)
                    for k in ('LC_ALL', 'LANG', 'PYTHONUTF8', 'PYTHONIOENCODING'):
                        e2.pop(k, None)
                    e2.update(envx)
                    p = subprocess.run([sys.executable, '-m', 'rbql', '--delim', ',', '--policy', 'quoted', '--encoding', 'utf-8', '--query', q], input=data, capture_output=True, env=e2, cwd=scratch)
                    stats.evaluations += 1
                    stats.nontrivial_counted += 1
                    err = p.stderr.decode('utf-8', errors='replace')
                    if p.returncode == 0 or 'Error [IO handling]' not in err or 'Traceback' in err:
                        failures.append({'leg': 'cli', 'clause': 'cli-stdin-invalid-utf8-not-io-error', 'detail': {'query': q, 'env': envx, 'bad_byte_at': pos, 'exit': p.returncode, 'stderr': err[-300:], 'stdout': p.stdout[:80].decode('utf-8', errors='replace')},
                                         'case': {'kind': 'cli', 'query': q, 'n': pos}})
                        break
                if failures:
                    break
            if failures:
                break
        stats.bump('cli-stdin-invalid-utf8')
    stats.samples = [{'cmd': 'python -m rbql --delim , --policy quoted --input big.csv --query "select a1, a2" | head -c 4097', 'expect': 'exit 0, empty stderr'}]
    return {'stats': stats.export(), 'failures': failures[:1]}


def replay(case, clause=None):
    import tempfile, shutil
    d = tempfile.mkdtemp(prefix='vf_c15_')
    try:
        kind = case.get('kind')
        fn = {'pipe': shard_pipe, 'bytes': shard_bytes, 'bytes-query_csv': shard_bytes, 'fd': shard_fd, 'trace': shard_trace, 'cli': shard_cli}[kind]
        r = fn(0, 1, 'quick', 1, d)
        if r['failures']:
            f = r['failures'][0]
            raise Violation(f['clause'], f['detail'])
    finally:
        shutil.rmtree(d, ignore_errors=True)


def probe_known(k):
    return False
