# Thin adapters around the code under test (Python side).
from __future__ import annotations

import copy

from . import common

rbql = common.load_rbql()
from rbql import rbql_engine  # noqa: E402


ERR_CLASSES = ('RbqlParsingError', 'RbqlRuntimeError', 'RbqlIOHandlingError', 'SyntaxError')


def err_info(e):
    name = type(e).__name__
    for c in ERR_CLASSES:
        if isinstance(e, SyntaxError):
            name = 'SyntaxError'
    return {'cls': name, 'msg': str(e)}


def run_table(text, A, B=None, a_names=None, b_names=None, normalize=True, init=''):
    """rbql.query_table on the given objects (no copies: the caller decides)."""
    out, warnings, header = [], [], []
    try:
        rbql.query_table(text, A, out, warnings, B, a_names, b_names, header, normalize_column_names=normalize, user_init_code=init)
    except Exception as e:
        return {'out': out, 'warnings': warnings, 'header': None, 'error': err_info(e)}
    return {'out': out, 'warnings': warnings, 'header': (header if header else None), 'error': None}


class CountingIterator(rbql_engine.TableIterator):
    """TableIterator that counts pulls and can continue with an endless generated tail."""

    def __init__(self, table, column_names=None, tail=None, budget=None, variable_prefix='a'):
        rbql_engine.TableIterator.__init__(self, table, column_names, True, variable_prefix)
        self.pulled = 0
        self.tail = tail
        self.budget = budget
        self.exhausted_calls = 0

    def get_record(self):
        if self.NR < len(self.table) or self.tail is None:
            rec = rbql_engine.TableIterator.get_record(self)
            if rec is not None:
                self.pulled += 1
            else:
                self.exhausted_calls += 1
            return rec
        self.NR += 1
        self.pulled += 1
        if self.budget is not None and self.pulled > self.budget:
            raise BudgetExceeded(self.pulled)
        rec = self.tail(self.NR)
        return rec


class BudgetExceeded(BaseException):
    """Raised by the harness iterator when the engine keeps pulling far beyond any bound."""


class TraceWriter(rbql_engine.RBQLOutputWriter):
    def __init__(self, refuse_at=None):
        self.trace = []
        self.out = []
        self.header = None
        self.refuse_at = refuse_at
        self.nwrites = 0

    def set_header(self, header):
        self.trace.append('set_header')
        self.header = header

    def write(self, fields):
        self.nwrites += 1
        if self.refuse_at is not None and self.nwrites >= self.refuse_at:
            self.trace.append('write=False')
            return False
        self.trace.append('write')
        self.out.append(fields)
        return True

    def finish(self):
        self.trace.append('finish')


def run_query_objects(text, A, B=None, a_names=None, b_names=None, tail=None, budget=None, refuse_at=None):
    """rbql.query with harness iterator / writer / registry objects."""
    it = CountingIterator(A, a_names, tail=tail, budget=budget)
    wr = TraceWriter(refuse_at)
    reg = None
    if B is not None:
        reg = rbql_engine.ListTableRegistry([rbql_engine.ListTableInfo('b', B, b_names), rbql_engine.ListTableInfo('B', B, b_names)])
    warnings = []
    try:
        rbql.query(text, it, wr, warnings, reg)
    except BudgetExceeded:
        raise
    except Exception as e:
        return {'out': wr.out, 'warnings': warnings, 'header': None, 'error': err_info(e), 'pulled': it.pulled, 'trace': wr.trace}
    return {'out': wr.out, 'warnings': warnings, 'header': wr.header, 'error': None, 'pulled': it.pulled, 'trace': wr.trace}


def snapshot(x):
    return copy.deepcopy(x)
