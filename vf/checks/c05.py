# C05 - UPDATE emits every record once, changing only assigned fields of matching rows.
from __future__ import annotations

from hypothesis import strategies as st

from ..common import Stats, run_hypothesis, Violation
from .. import qgen, relcheck, refmodel

PROP = 'C05'
LEVEL = 'exploration'
RULE = ('Hypothesis-generated tables (ragged allowed) x UPDATE [SET] / UPDATE a SET lists of 1-3 assignments with targets in all spellings '
        '(aN, a[N], a.name, a["name"], a[\'name\']) and right-hand sides reading other assigned fields, NU, NR, b-fields x optional WHERE x '
        'optional INNER/LEFT JOIN (<=1 match per key, and >1 => must fail). Oracle = reference UPDATE: one output record per input record, '
        'equal to the input except at assigned indices of qualifying records where it equals the right-hand side evaluated in the pre-update '
        'environment; assigning to a missing field => RbqlRuntimeError naming the record and field. Frame condition checked explicitly. '
        'Non-trivial = >=2 assignments one of which reads another assigned field, and WHERE/JOIN splits the table (some records updated, some not).')
ASSUMPTIONS = ['right-hand sides are generated to be evaluable', 'LEFT JOIN partner of an unmatched record is the all-None record (C04)']


def plan(tier):
    return {'stages': [('shard', 16)], 'timeout_s': 3000}


def strategy():
    return st.one_of(qgen.st_case_update(join_p=4, multi_match=False), qgen.st_case_update(join_p=4, multi_match=False), qgen.st_case_update(join_p=2, multi_match=True))


def check_case(case, stats=None):
    q = case['q']
    tup = relcheck.run_both(case, 'table')
    text, exp, exp_err, got, A, B = tup
    if stats is not None:
        cl = ['assignments-%d' % len(q['assign'])]
        targets = set(a['idx'] for a in q['assign'])
        reads_other = False
        for a in q['assign']:
            nm = a['e'].get('name')
            if nm and 'f' in nm and nm['f'][0] == 'a' and nm['f'][1] in targets and nm['f'][1] != a['idx']:
                reads_other = True
        if reads_other:
            cl.append('reads-other-target')
        if any('NU' in a['e']['py'] for a in q['assign']):
            cl.append('NU')
        for a in q['assign']:
            cl.append('target-' + a['target']['sp'])
        if q.get('where') is not None:
            cl.append('where')
        if q.get('join'):
            cl.append('join-' + q['join']['kind'].replace(' ', '_'))
        if q.get('set_kw'):
            cl.append('SET')
        if q.get('update_a'):
            cl.append('UPDATE-a-SET')
        if exp_err is not None:
            cl.append('ref-says-error')
        split = exp is not None and 0 < exp['n_updated'] < len(case['A'])
        if split:
            cl.append('split')
        if len(set(len(r) for r in case['A'])) > 1:
            cl.append('ragged')
        nt = len(q['assign']) >= 2 and reads_other and split
        stats.case(case, nt, cl, sample={'query': text, 'A': case['A'], 'B': case.get('B'), 'a_names': case.get('a_names'), 'out': got['out'][:6], 'error': got['error']})
    relcheck.assert_rel(case, {'records', 'fresh'}, 'table', tup)
    if exp is not None and got['error'] is None:
        # explicit frame condition, independent of the reference values
        if len(got['out']) != len(case['A']):
            raise Violation('update-record-count', {'query': text})
        targets = set(a['idx'] for a in q['assign'])
        for i, (o, r) in enumerate(zip(got['out'], case['A'])):
            if len(o) != len(r):
                raise Violation('update-record-width', {'query': text, 'record': i + 1})
            for j, (x, y) in enumerate(zip(o, r)):
                if j not in targets and not refmodel.same_value(x, y):
                    raise Violation('update-frame', {'query': text, 'record': i + 1, 'field': j + 1})


def shard(shard, nshards, tier, seed, scratch):
    total = 20000 if tier == 'quick' else 200000
    stats = Stats()
    failures = run_hypothesis(strategy(), lambda c: check_case(c, stats), max(1, total // nshards), seed, shrink_budget=300 if tier == 'quick' else 2000)
    return {'stats': stats.export(), 'failures': failures}


def replay(case, clause=None):
    check_case(case)


def probe_known(k):
    return False
