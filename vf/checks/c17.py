# C17 - like(text, pattern) implements SQL LIKE exactly.
from __future__ import annotations

import itertools
import re

from hypothesis import strategies as st

from ..common import Stats, run_hypothesis, Violation
from .. import engine, refmodel

from rbql import rbql_engine  # noqa: E402

PROP = 'C17'
LEVEL = 'exploration'
SIGMA = ['a', 'b', '%', '_', '.', '*', '\\', '[', '(', '^', '$', '+', '?', '|']
RULE = ('Exhaustive: all patterns x texts over the 14-symbol alphabet {a b % _ . * \\ [ ( ^ $ + ? |} with |p| <= 3 and |t| <= 2 (quick) / |t| <= 3 (thorough), '
        'and (thorough) all |p| <= 5 over {a % _ . \\} x all |t| <= 5 over {a b . \\}; every pair is evaluated as a record of `select like(a1, a2)` '
        'through rbql.query_table in batches (one batch = one text x every pattern, so the per-query regex cache holds thousands of patterns) and '
        'through rbql_engine.like_to_regex directly; rbql-js evaluates the same query for |p|,|t| <= 2 (and the reduced alphabets up to length 3/4). '
        'Hypothesis: random pairs up to length 5 over the alphabet and longer Unicode pairs (single-line texts). Oracle = dynamic-programming '
        'matcher without regular expressions. Non-trivial = pattern contains a wildcard and a regex metacharacter; enumerated pairs are distinct by construction.'
        ' Later additions: every ASCII character as a literal pattern character, identifier-like patterns (constructor, __proto__, ...), all 44521 short pairs in one query per engine, pairs of 16 .. 1000 characters.')
ASSUMPTIONS = ['texts are single-line (no LF)', 'the space of pairs up to length 5 over the full alphabet (3e11 pairs) is sampled, not enumerated']
META = set('.*\\[(^$+?|')


def plan(tier):
    return {'stages': [('shard_enum', 12), ('shard_random', 3), ('shard_js', 1)], 'timeout_s': 3000}


def strings(alpha, maxlen):
    return [''.join(t) for n in range(0, maxlen + 1) for t in itertools.product(alpha, repeat=n)]


def run_batch(rows, fn='like'):
    out, w = [], []
    try:
        engine.rbql.query_table('select %s(a1, a2)' % fn, rows, out, w)
    except Exception as e:
        raise Violation('like-query-raises', {'error': engine.err_info(e), 'first_rows': rows[:3]})
    return [r[0] for r in out]


def check_batch(text, patterns, stats, failures, seen, leg):
    rows = [[text, p] for p in patterns]
    got = run_batch(rows, 'like' if len(text) % 2 == 0 else 'LIKE')
    if len(got) != len(rows):
        raise Violation('batch-size', {'text': text})
    for p, g in zip(patterns, got):
        exp = refmodel.ref_like(text, p)
        stats.evaluations += 1
        if ('%' in p or '_' in p) and (set(p) & META):
            stats.nontrivial_counted += 1
        bad = None
        if g is not exp:
            bad = ('query-result', g)
        else:
            d = re.match(rbql_engine.like_to_regex(p), text) is not None
            if d is not exp:
                bad = ('like_to_regex', d)
        if bad and (leg, bad[0]) not in seen:
            seen.add((leg, bad[0]))
            failures.append({'leg': leg, 'clause': bad[0], 'detail': {'text': text, 'pattern': p, 'got': bad[1], 'expected': exp}, 'case': {'kind': 'pair', 'text': text, 'pattern': p}})


def shard_enum(shard, nshards, tier, seed, scratch):
    stats = Stats()
    failures, seen = [], set()
    pats = strings(SIGMA, 3)
    texts = strings(SIGMA, 2 if tier == 'quick' else 3)
    try:
        for i, t in enumerate(texts):
            if i % nshards == shard:
                check_batch(t, pats, stats, failures, seen, 'enum-sigma')
    except Violation as v:
        failures.append({'leg': 'enum-sigma', 'clause': v.clause, 'detail': v.detail, 'case': {'kind': 'pair', 'text': v.detail['first_rows'][0][0], 'pattern': v.detail['first_rows'][0][1]}})
        return {'stats': stats.export(), 'failures': failures}
    stats.bump('sigma-patterns', len(pats))
    if tier == 'thorough':
        pats2 = strings(['a', '%', '_', '.', '\\'], 5)
        texts2 = strings(['a', 'b', '.', '\\'], 5)
        for i, t in enumerate(texts2):
            if i % nshards == shard:
                check_batch(t, pats2, stats, failures, seen, 'enum-reduced')
    stats.samples = [{'text': 'a.', 'pattern': '_\\.', 'expected': refmodel.ref_like('a.', '_\\.')}, {'text': '^a', 'pattern': '^%', 'expected': True}][:2]
    return {'stats': stats.export(), 'failures': failures, 'extra': {'exhaustive': True}}


@st.composite
def st_pair(draw):
    k = draw(st.integers(0, 2))
    if k == 0:
        sym = st.sampled_from(SIGMA)
        return {'kind': 'pair', 'pattern': ''.join(draw(st.lists(sym, max_size=5))), 'text': ''.join(draw(st.lists(sym, max_size=5)))}
    ch = st.one_of(st.sampled_from(SIGMA + ['%', '_', '%', 'é', '𝄞', '\r', '\t', ' ', '{', '}', '1', '2', ',', '{2}', '{1,3}', '{,2}', ']', ')', '-', '\\d', '\\b', '#', '&', '~', ' ']),
                st.characters(blacklist_categories=('Cs',), blacklist_characters='\n'))
    text = ''.join(draw(st.lists(ch, max_size=24)))
    if k == 1:
        # a pattern derived from the text so that matches are common
        pat = []
        i = 0
        while i < len(text):
            r = draw(st.integers(0, 5))
            if r == 0:
                pat.append('_')
                i += 1
            elif r == 1:
                pat.append('%')
                i += draw(st.integers(0, 4))
            else:
                pat.append(text[i])
                i += 1
        return {'kind': 'pair', 'pattern': ''.join(pat), 'text': text}
    return {'kind': 'pair', 'pattern': ''.join(draw(st.lists(ch, max_size=12))), 'text': text}


def check_pair(case, stats=None):
    t, p = case['text'], case['pattern']
    exp = refmodel.ref_like(t, p)
    if stats is not None:
        stats.case(case, ('%' in p or '_' in p) and bool(set(p) & META), ['random-match' if exp else 'random-nomatch'], sample=dict(case, expected=exp))
    # the same query also evaluates case variants: the per-query regex cache must not confuse them
    rows = [[t, p], ['zz', 'z_'], [t, p], [t, p.swapcase()], [t.swapcase(), p], [t, p]]
    got = run_batch(rows)
    want = [refmodel.ref_like(a, b) for a, b in rows]
    if any(g is not w for g, w in zip(got, want)) or len(got) != len(want):
        raise Violation('query-result', {'text': t, 'pattern': p, 'rows': rows, 'got': got, 'expected': want})
    if (re.match(rbql_engine.like_to_regex(p), t) is not None) is not exp:
        raise Violation('like_to_regex', {'text': t, 'pattern': p, 'expected': exp})


def shard_random(shard, nshards, tier, seed, scratch):
    total = 6000 if tier == 'quick' else 150000
    stats = Stats()
    fails = run_hypothesis(st_pair(), lambda c: check_pair(c, stats), max(1, total // nshards), seed, shrink_budget=300 if tier == 'quick' else 2000)
    for f in fails:
        f['leg'] = 'random'
    return {'stats': stats.export(), 'failures': fails}


IDENT_WORDS = ['constructor', 'toString', 'valueOf', 'hasOwnProperty', 'isPrototypeOf', '__proto__', 'propertyIsEnumerable', 'toLocaleString', '__defineGetter__', 'length', 'prototype',
               '__class__', '__dict__', '__len__', 'None', 'null', 'undefined', 'NaN', 'true', 'get', 'set', 'has', 'size', 'keys']


def shard_js(shard, nshards, tier, seed, scratch):
    stats = Stats()
    failures, seen = [], set()
    try:
        from .. import jsdriver
    except ImportError:
        stats.notes.append('node driver not available in this revision: JS leg skipped')
        return {'stats': stats.export(), 'failures': []}
    drv = jsdriver.Driver()
    try:
        pats = strings(SIGMA, 2)
        texts = strings(SIGMA, 2)
        jobs = [(t, pats) for t in texts]
        red_p = strings(['a', '%', '_', '.', '\\'], 3 if tier == 'quick' else 4)
        red_t = strings(['a', 'b', '.', '\\'], 3 if tier == 'quick' else 4)
        jobs += [(t, red_p) for t in red_t]
        for t, ps in jobs:
            rows = [[t, p] for p in ps]
            res = drv.query_table('select like(a1, a2)', rows)
            if res['error'] is not None:
                raise Violation('js-error', {'text': t, 'error': res['error']})
            for p, r in zip(ps, res['out']):
                exp = refmodel.ref_like(t, p)
                stats.evaluations += 1
                if ('%' in p or '_' in p) and (set(p) & META):
                    stats.nontrivial_counted += 1
                if r[0] is not exp and ('js', 'query-result') not in seen:
                    seen.add(('js', 'query-result'))
                    failures.append({'leg': 'js', 'clause': 'js-query-result', 'detail': {'text': t, 'pattern': p, 'got': r[0], 'expected': exp}, 'case': {'kind': 'jspair', 'text': t, 'pattern': p}})
        stats.bump('js-batches', len(jobs))
        # all (text, pattern) pairs of length <= 2 in ONE query per engine, patterns outermost: any per-query memo keyed by a
        # combination of pattern and text meets every pair of pairs
        small = strings(SIGMA, 2)
        rows = [[t, p] for p in small for t in small]
        for lang in ('js', 'py'):
            if lang == 'js':
                res = drv.query_table('select like(a1, a2)', rows)
            else:
                res = engine.run_table('select like(a1, a2)', [list(r) for r in rows], None, None, None)
            if res['error'] is not None:
                raise Violation(lang + '-error', {'text': rows[0][0], 'pattern': 'all pairs in one query', 'error': res['error']})
            for (t, p), r in zip(rows, res['out']):
                exp = refmodel.ref_like(t, p)
                stats.evaluations += 1
                if r[0] is not exp and (lang, 'one-query') not in seen:
                    seen.add((lang, 'one-query'))
                    failures.append({'leg': 'js', 'clause': lang + '-query-result-all-pairs-in-one-query', 'detail': {'text': t, 'pattern': p, 'got': r[0], 'expected': exp, 'rows_in_query': len(rows)}, 'case': {'kind': 'allpairs', 'lang': lang}})
        stats.bump('all-pairs-in-one-query', len(rows))
        # every ASCII character (digits, punctuation, control characters) and a few others as a literal pattern character
        rows = []
        for c in [chr(i) for i in range(0, 128) if chr(i) not in '%_\n\r'] + ['\xa0', '\xe9', '\u0416', '\u20ac', '\x85']:   # single-line texts: no LF, CR, U+2028, U+2029
            rows += [[c, c], ['a' + c + 'b', 'a' + c + 'b'], ['a' + c + 'b', 'a_b'], ['a' + c + 'b', '%' + c + '%'], ['a\x01b', 'a' + c + 'b'], ['a' + c, 'a' + c + c], [c + c, c + '%'], ['2024-01-05', '2024' + c + '%'], ['a1b', 'a' + c + 'b']]
        for lang in ('js', 'py'):
            res = drv.query_table('select like(a1, a2)', rows) if lang == 'js' else engine.run_table('select like(a1, a2)', [list(r) for r in rows], None, None, None)
            if res['error'] is not None:
                raise Violation(lang + '-error', {'text': 'every ASCII character', 'pattern': 'every ASCII character', 'error': res['error']})
            for (t, p), r in zip(rows, res['out']):
                exp = refmodel.ref_like(t, p)
                stats.evaluations += 1
                stats.nontrivial_counted += 1
                if r[0] is not exp and (lang, 'ascii') not in seen:
                    seen.add((lang, 'ascii'))
                    failures.append({'leg': 'js', 'clause': lang + '-query-result-character-as-itself', 'detail': {'text': t, 'pattern': p, 'got': r[0], 'expected': exp}, 'case': {'kind': 'jspair' if lang == 'js' else 'pair', 'text': t, 'pattern': p}})
        stats.bump('every-ascii-character', len(rows))
        # long texts / patterns (beyond any small-integer, token-count or length threshold): 16..20, 255..260, 1000 characters
        rows = []
        for n in (16, 17, 18, 33, 64, 65, 255, 256, 257, 258, 300, 1000):
            t = ('ab.' * n)[:n]
            rows += [[t, t], [t, '_' * n], [t, '_' * (n - 1)], [t, '_' * (n + 1)], [t, '%' + t[1:]], [t, t[:-1] + '%'], [t, t[:n // 2] + '%' + t[n // 2:]], [t, t[:n // 2] + '_' + t[n // 2 + 1:]],
                     [t, ('a_.' * n)[:n]], [t, t.replace('.', '\\.')], [t + 'x', t], [t, t + '_'], ['a' * n, 'a' * (n - 1) + '_'], ['a' * n + '.', 'a' * n + '.'], ['a' * n + 'x', 'a' * n + '.']]
        rows += [[('ab.' * n)[:n], '_%' * (n // 2)] for n in (16, 17, 18)]      # (longer chains of `.*` backtrack exponentially in both regex engines: a cost, not a result)
        for lang in ('js', 'py'):
            res = drv.query_table('select like(a1, a2)', rows) if lang == 'js' else engine.run_table('select like(a1, a2)', [list(r) for r in rows], None, None, None)
            if res['error'] is not None:
                raise Violation(lang + '-error', {'text': 'long pairs', 'pattern': 'long pairs', 'error': res['error']})
            for (t, p), r in zip(rows, res['out']):
                exp = refmodel.ref_like(t, p)
                stats.evaluations += 1
                stats.nontrivial_counted += 1
                if r[0] is not exp and (lang, 'long') not in seen:
                    seen.add((lang, 'long'))
                    failures.append({'leg': 'js', 'clause': lang + '-query-result-long-pair', 'detail': {'text_length': len(t), 'pattern_length': len(p), 'text': t[:40] + '...', 'pattern': p[:40] + '...', 'got': r[0], 'expected': exp}, 'case': {'kind': 'jspair' if lang == 'js' else 'pair', 'text': t, 'pattern': p}})
        stats.bump('long-pairs', len(rows))
        # patterns / texts that are member names of the host languages' built-in objects (a cache keyed by pattern in a plain object / dict)
        rows = [[t, p] for t in IDENT_WORDS + ['xxprotoxx', 'constructors', ''] for p in IDENT_WORDS + ['const%', '%String', '__proto%', '%']]
        res = drv.query_table('select like(a1, a2)', rows)
        if res['error'] is not None:
            raise Violation('js-error', {'text': rows[0][0], 'pattern': 'one of the identifier-like patterns', 'error': res['error']})
        pyres = engine.run_table('select like(a1, a2)', [list(r) for r in rows], None, None, None)
        if pyres['error'] is not None:
            raise Violation('py-error', {'text': rows[0][0], 'pattern': 'one of the identifier-like patterns', 'error': pyres['error']})
        for (t, p), r, r2 in zip(rows, res['out'], pyres['out']):
            exp = refmodel.ref_like(t, p)
            stats.evaluations += 2
            stats.nontrivial_counted += 1
            for lang, got in (('js', r[0]), ('py', r2[0])):
                if got is not exp and (lang, 'ident') not in seen:
                    seen.add((lang, 'ident'))
                    failures.append({'leg': 'js', 'clause': lang + '-query-result-identifier-like', 'detail': {'text': t, 'pattern': p, 'got': got, 'expected': exp}, 'case': {'kind': 'jspair', 'text': t, 'pattern': p}})
        stats.bump('identifier-like-pairs', len(rows))
        import random
        rnd = random.Random(seed)
        astral = ['😀', '𝄞', 'a', 'b', '%', '.', '*', 'é', '€', '\\', '(', '𐍈']
        rows = []
        for _ in range(400 if tier == 'quick' else 4000):
            t = ''.join(rnd.choice(astral[:2] + astral[2:4] + ['.', 'é', '€', '𐍈']) for _ in range(rnd.randint(0, 5)))
            p = ''.join(rnd.choice(astral) for _ in range(rnd.randint(0, 5)))
            if rnd.random() < 0.5:
                # derived from the text so that matches are common
                p = ''.join(('%' if rnd.random() < 0.3 else ch) for ch in t)
            rows.append([t, p])
        res = drv.query_table('select like(a1, a2)', rows)
        if res['error'] is not None:
            raise Violation('js-error', {'text': rows[0][0], 'error': res['error']})
        for (t, p), r in zip(rows, res['out']):
            exp = refmodel.ref_like(t, p)
            stats.evaluations += 1
            if r[0] is not exp and ('js', 'astral') not in seen:
                seen.add(('js', 'astral'))
                failures.append({'leg': 'js', 'clause': 'js-query-result-non-bmp', 'detail': {'text': t, 'pattern': p, 'got': r[0], 'expected': exp}, 'case': {'kind': 'jspair', 'text': t, 'pattern': p}})
        stats.bump('js-non-bmp-pairs', len(rows))
    except Violation as v:
        failures.append({'leg': 'js', 'clause': v.clause, 'detail': v.detail, 'case': {'kind': 'jspair', 'text': v.detail.get('text'), 'pattern': ''}})
    finally:
        drv.close()
    return {'stats': stats.export(), 'failures': failures}


def replay(case, clause=None):
    if case.get('kind') == 'allpairs':
        small = strings(SIGMA, 2)
        rows = [[t, p] for p in small for t in small]
        if case['lang'] == 'js':
            from .. import jsdriver
            drv = jsdriver.Driver()
            try:
                res = drv.query_table('select like(a1, a2)', rows)
            finally:
                drv.close()
        else:
            res = engine.run_table('select like(a1, a2)', rows, None, None, None)
        if res['error'] is not None:
            raise Violation('all-pairs-error', {'error': res['error']})
        for (t, p), r in zip(rows, res['out']):
            if r[0] is not refmodel.ref_like(t, p):
                raise Violation('query-result-all-pairs-in-one-query', {'text': t, 'pattern': p, 'got': r[0]})
        return
    if case.get('kind') == 'jspair':
        from .. import jsdriver
        drv = jsdriver.Driver()
        try:
            res = drv.query_table('select like(a1, a2)', [[case['text'], case['pattern']]])
        finally:
            drv.close()
        exp = refmodel.ref_like(case['text'], case['pattern'])
        if res['error'] is not None or res['out'][0][0] is not exp:
            raise Violation('js-query-result', {'got': res, 'expected': exp})
        return
    check_pair(case)


def probe_known(k):
    return False
