#!/usr/bin/env python3
"""Confirm a seeded change and run checks against it.

  tools/seedtest.py import /tmp/seed/C07        copy _seed/{patch.diff,demo.*,meta.json} into /verif/seeded/<id>/ (id = property[-n])
  tools/seedtest.py run <seed-id> [--props C07,C18] [--tier quick]
        applies seeded/<seed-id>/patch.diff to a scratch copy of /repo's working tree (outside /repo and /verif),
        runs the demonstration against the unchanged tree (must PASS) and the patched copy (must FAIL), the tree's own
        test files against the patched copy (must pass), then the listed checks with VERIF_REPO=<scratch>; removes the scratch copy.
"""
import argparse, glob, json, os, shutil, subprocess, sys, tempfile, time

ROOT = os.path.dirname(os.path.dirname(os.path.abspath(__file__)))
PY = '/venv/bin/python'


def sh(cmd, **kw):
    return subprocess.run(cmd, capture_output=True, text=True, **kw)


def make_scratch(patch):
    scratch = tempfile.mkdtemp(prefix='vf_seed_')
    for d in ('rbql-py', 'rbql-js', 'test'):
        shutil.copytree(os.path.join('/repo', d), os.path.join(scratch, d))
    p = sh(['patch', '-p1', '--no-backup-if-mismatch', '-i', patch], cwd=scratch)
    if p.returncode != 0:
        shutil.rmtree(scratch, ignore_errors=True)
        raise SystemExit('patch does not apply:\n' + p.stdout + p.stderr)
    return scratch


def run_demo(demo, root):
    if demo.endswith('.js'):
        return sh(['node', demo, root])
    return sh([PY, '-W', 'ignore', demo, root])


def main():
    ap = argparse.ArgumentParser()
    ap.add_argument('cmd', choices=['import', 'run'])
    ap.add_argument('target')
    ap.add_argument('--props', default=None)
    ap.add_argument('--tier', default='quick')
    ap.add_argument('--seeds', default='1')
    a = ap.parse_args()
    if a.cmd == 'import':
        src = os.path.join(a.target, '_seed')
        meta = json.load(open(os.path.join(src, 'meta.json')))
        prop = meta['property']
        n = 1
        while os.path.exists(os.path.join(ROOT, 'seeded', '%s-%d' % (prop, n))):
            n += 1
        dst = os.path.join(ROOT, 'seeded', '%s-%d' % (prop, n))
        os.makedirs(dst)
        for f in os.listdir(src):
            if os.path.isfile(os.path.join(src, f)) and os.path.getsize(os.path.join(src, f)) < 200000:
                shutil.copy(os.path.join(src, f), dst)
        print('imported as', os.path.relpath(dst, ROOT))
        return
    sid = a.target
    d = os.path.join(ROOT, 'seeded', sid)
    meta = json.load(open(os.path.join(d, 'meta.json')))
    demos = sorted(glob.glob(os.path.join(d, 'demo.*')))
    patch = os.path.join(d, 'patch.diff')
    props = (a.props.split(',') if a.props else [meta['property']])
    scratch = make_scratch(patch)
    report = {'seed': sid, 'property': meta['property']}
    try:
        for demo in demos:
            base = run_demo(demo, '/repo')
            mut = run_demo(demo, scratch)
            report['demo'] = {'file': os.path.basename(demo), 'unchanged_tree_exit': base.returncode, 'patched_exit': mut.returncode, 'patched_output': (mut.stdout + mut.stderr)[-400:]}
            print('demo %s: unchanged tree exit=%d, patched exit=%d' % (os.path.basename(demo), base.returncode, mut.returncode))
        t = sh([PY, '-m', 'pytest', '-q', '-p', 'no:cacheprovider', 'test/test_rbql.py', 'test/test_csv_utils.py', 'test/test_mad_max.py', 'test/test_rbql_pandas.py', 'test/test_rbql_sqlite.py'], cwd=scratch)
        tail = (t.stdout.strip().splitlines() or [''])[-1]
        report['tree_tests_on_patched_copy'] = tail
        print('tree tests on patched copy:', tail)
        for f in glob.glob('/tmp/rbql_csv_unit_tests_dir_*'):
            shutil.rmtree(f, ignore_errors=True)
        report['checks'] = []
        for prop in props:
            for seed in a.seeds.split(','):
                env = dict(os.environ, VERIF_REPO=scratch, VERIF_SEED=seed)
                t0 = time.time()
                p = sh([PY, '-W', 'ignore', '-m', 'vf.run', prop, '--tier', a.tier], cwd=ROOT, env=env)
                viol = [l for l in p.stdout.splitlines() if l.startswith('violation:')]
                status = {0: 'MISSED', 1: 'caught', 2: 'HARNESS'}.get(p.returncode, 'rc=%d' % p.returncode)
                if status == 'caught' and 'VIOLATION property=' not in p.stdout:
                    status = 'HARNESS'
                report['checks'].append({'property': prop, 'tier': a.tier, 'seed': int(seed), 'status': status, 'wall_s': round(time.time() - t0, 1), 'first_violation': viol[0][:300] if viol else None})
                print('%-8s %s seed=%s %5.1fs %s' % (status, prop, seed, time.time() - t0, viol[0][:220] if viol else p.stdout.strip().splitlines()[-1][:200] if p.stdout.strip() else p.stderr[-300:]))
    finally:
        shutil.rmtree(scratch, ignore_errors=True)
    with open(os.path.join(d, 'last_run.json'), 'w') as f:
        json.dump(report, f, indent=1)


if __name__ == '__main__':
    main()
