# C16 - Queries are isolated: consecutive and thread-interleaved runs do not interfere.
from __future__ import annotations

import copy
import itertools
import json
import os
import subprocess
import sys

import hypothesis
from hypothesis import settings, HealthCheck, strategies as st
from hypothesis.stateful import RuleBasedStateMachine, rule, run_state_machine_as_test

from ..common import Stats, Violation, HarnessError, VERIF_ROOT, REPO, jsonable
from .. import engine, sched, refcsv

PROP = 'C16'
LEVEL = 'exploration'
RULE = ('Histories: a pool of 90 scenarios (sharing their table objects) (every query kind of C01-C05, LIKE with many patterns, aggregates, UNNEST, DISTINCT [COUNT], joins, UPDATE, parse errors, runtime '
        'errors at record k, IO errors, query_csv, pandas); every ordered pair (quick) and every ordered triple (thorough) run in one interpreter, plus Hypothesis '
        'rule-based state machines over sequences of <= 6 (quick) / <= 12 (thorough) scenarios; invariant after every step: the result (output, header, warnings, error) '
        'equals the result of the same scenario run alone in a FRESH interpreter (one sub-process per scenario). Consecutive rbql-js queries: every ordered pair and a sample of triples (thorough: all) of a 29-scenario JS pool in one node process, each step compared with the scenario run in a fresh node process. Interleavings: two queries of different kinds run in two '
        'threads under a cooperative scheduler that switches only at get_record (input and join table) / write / set_header / finish; every interleaving is enumerated by '
        're-execution (depth-first over the binary choice points) - tables of 2 records (quick), 3 and 4 records (thorough); both results must equal the run-alone results. '
        'Non-trivial = a history containing a failing query followed by a succeeding one of the same kind; an interleaving with a switch while both queries are mid-flight. '
        'Enumerated pairs / interleavings are distinct by construction.'
        ' Later additions (pool now 90 scenarios): value-class aggregates, fails-midway scenarios per writer kind, same select text under different heads, user_init_code, a long-lived sqlite connection, colorized CSV output, interleaved JOIN pairs of different key arity.')
ASSUMPTIONS = ['only the cooperative switch points the property names are explored; byte-code-level pre-emption is not', "rbql-js's module-global context is a documented limitation and not claimed"]

T1 = [['a', '1', 'x,y'], ['b', '2', 'z'], ['a', '3', 'x'], ['c', '10', ''], ['b', '5', 'y,y']]
T2 = [['a', 'A1'], ['b', 'B1'], ['a', 'A2'], ['d', 'D1']]
T3 = [['a', 'A1', 'extra'], ['b'], ['a', 'A2'], ['c', 'C1']]
LIKE_T = [[t, p] for t in ['abc', 'a.c', 'a%', '', 'xyz', 'a_c'] for p in ['a%', '_b_', 'a.c', '%', 'a\\%', '%c', 'x_z', '']]
NAMES = ['k', 'n', 'tags']


def plan(tier):
    return {'stages': [('shard_histories', 3), ('shard_js_histories', 1), ('shard_interleavings', 12)], 'timeout_s': 5400}


def S(name, query, A=T1, B=None, a_names=None, b_names=None, kind='table', init='', enc='utf-8'):
    return {'name': name, 'query': query, 'A': A, 'B': B, 'a_names': a_names, 'b_names': b_names, 'kind': kind, 'init': init, 'enc': enc}


_SQLITE = {}


def shared_sqlite_connection(scratch):
    """One connection per process, handed to every sqlite scenario of every history (as a caller would keep one open)."""
    if 'con' not in _SQLITE:
        import sqlite3
        path = os.path.join(scratch, 'c16_%d.sqlite' % os.getpid())
        if os.path.exists(path):
            os.remove(path)
        con = sqlite3.connect(path)
        con.execute('create table t (name text, amount text)')
        con.executemany('insert into t values (?, ?)', [('caf\u00e9', '10'), ('x', 'abc'), ('\u00fc', '3')])
        con.commit()
        _SQLITE['con'] = con
    return _SQLITE['con']


POOL = [
    S('select', 'select a1, a2'), S('select-expr', "select a1 + '-' + a2, len(a3), NR, NF"), S('where', 'select * where int(a2) > 2'), S('star-except', 'select * except a2'),
    S('order', 'select a1, a2 order by int(a2) desc'), S('order-ties', 'select a2 order by a1'), S('distinct', 'select distinct a1'), S('distinct-count', 'select distinct count a1'),
    S('top', 'select top 2 a1'), S('limit-order', 'select a1 order by a1 limit 3'), S('unnest', "select a1, UNNEST(a3.split(','))"), S('unnest-order', "select UNNEST(a3.split(',')), a1 order by a1"),
    S('agg', 'select a1, count(*), sum(int(a2)), max(a2) group by a1'), S('agg-nogroup', 'select COUNT(*), AVG(a2), MEDIAN(a2), VARIANCE(a2)'), S('agg-array', 'select a1, ARRAY_AGG(a2), ANY_VALUE(a3) group by a1'),
    S('agg-min-lower', 'select min(a2), sum(a2)'), S('builtin-max', 'select max(int(a2), 3), sum([1, NR])'), S('like', "select a1, like(a1, a2), like(a1, '%c')", A=LIKE_T), S('like-where', "select a1 where like(a1, 'a_c') or like(a2, '\\%')", A=LIKE_T), S('like-upper', "select a1, like(a1, 'A%'), like(a1, '%C'), like(a1, 'A_C')", A=LIKE_T), S('like-lower', "select a1, like(a1, 'a%'), like(a1, '%c'), like(a1, 'a_c')", A=LIKE_T),
    S('join', 'select a1, b2 join b on a1 == b1', B=T2), S('left-join', 'select a1, b2, bNR left join b on a1 == b1', B=T2), S('join-nr', 'select a1, b2 join b on NR == bNR', B=T2),
    S('left-join-ragged', 'select a1, b2, b3 left join b on a1 == b1', B=T3), S('ragged-input', 'select NF, * order by NF', A=T3), S('join-ragged-inner', 'select a1, b.* join b on a1 == b1', B=T3),
    S('join-agg', 'select a1, count(*), ARRAY_AGG(b2) join b on a1 == b1 group by a1', B=T2), S('strict-left-fails', 'select a1, b2 strict left join b on a1 == b1', B=T2),
    S('update', "update a3 = a1 + a2, a1 = 'U' where a1 != 'b'"), S('update-nu', 'update set a2 = NU'), S('update-join', "update a3 = b2 join b on a2 == b1", B=[['1', 'one'], ['3', 'three']]),
    S('header', 'select a.k, a["tags"] as t, NR', a_names=NAMES), S('header-permuted', 'select a.k, a["tags"] as t, NR', a_names=['tags', 'k', 'n']), S('header-permuted-2', 'select a.k, a["tags"] as t, NR', a_names=['n', 'tags', 'k']),
    S('update-named', "update a.n = 'N', a[\"k\"] = a.tags", a_names=NAMES), S('update-named-permuted', "update a.n = 'N', a[\"k\"] = a.tags", a_names=['tags', 'n', 'k']),
    S('where-named', "select NR where a.k == 'a' order by a.n", a_names=NAMES), S('where-named-permuted', "select NR where a.k == 'a' order by a.n", a_names=['n', 'k', 'tags']), S('missing-dict-key', 'select a1, a["tags"]', a_names=['k', 'n', 'other']), S('missing-dict-key-b', 'select a1, b["w"] join b on a1 == b1', B=T2, a_names=NAMES, b_names=['k', 'zz']),
    S('header-dict-b', 'select a["k"], b["w"] join b on a["k"] == b["k"]', B=T2, a_names=NAMES, b_names=['k', 'w']), S('header-star', 'select *, a.n as num order by a.k', a_names=NAMES), S('header-join', 'select a.k, b.w join b on a.k == b.k', B=T2, a_names=NAMES, b_names=['k', 'w']),
    S('parse-error-1', 'select a1 where a1 = 1'), S('parse-error-2', 'select'), S('parse-error-3', 'select a1 join b on a1 == zz', B=T2), S('syntax-error', 'select a1 +'),
    S('agg-misuse', 'select MAX(int(a2)) + 1'), S('two-unnest', 'select UNNEST([1]), UNNEST([2])'), S('runtime-error-1', 'select a1, 1 / (1 - NR)'), S('runtime-error-3', 'select a1, 1 / (3 - NR)'),
    S('runtime-error-sorted', 'select a1 order by 1 / (4 - NR)'), S('runtime-error-agg', 'select sum(a3)'), S('nonconst-group', 'select a2, count(*) group by a1'),
    # the same aggregates over different value classes (numbers, float numbers, int-looking and float-looking strings): per-query number handling
    S('agg-numbers-int', 'select MEDIAN(a1), MIN(a1), MAX(a1), SUM(a1), AVG(a1)', A=[[3], [1], [2], [10]]), S('agg-numbers-float', 'select MEDIAN(a1), MIN(a1), MAX(a1), SUM(a1), AVG(a1)', A=[[1.5], [2.25], [0.5]]),
    S('agg-strings-int', 'select MEDIAN(a1), MIN(a1), MAX(a1), SUM(a1), AVG(a1)', A=[['10'], ['9'], ['100']]), S('agg-strings-float', 'select MEDIAN(a1), MIN(a1), MAX(a1), SUM(a1), AVG(a1)', A=[['1.5'], ['10'], ['9'], ['2']]),
    S('agg-strings-grouped', 'select a2, MEDIAN(a1), MAX(a1), SUM(a1) group by a2', A=[['10', 'x'], ['9', 'x'], ['100', 'x'], ['7', 'y']]),
    S('csv-color-12-columns', 'select *, NR', kind='csv-color', A=[['c%d_%d' % (r, c) for c in range(12)] for r in range(3)]), S('csv-color-fails', 'select a1, 1 / (2 - NR)', kind='csv-color', A=[['x', 'y'], ['z', 'w']]),
    S('csv-color-3-columns', 'select a1, a2, a3', kind='csv-color'),
    # the sqlite front-end over one long-lived connection of the caller: output encodings, succeeding and failing
    S('sqlite-utf8', 'select a.name, a.amount', kind='sqlite'), S('sqlite-latin1', 'select a.name, a.amount', kind='sqlite', enc='latin-1'),
    S('sqlite-latin1-fails', 'select a.name, int(a.amount)', kind='sqlite', enc='latin-1'), S('sqlite-utf8-fails', 'select a.name, int(a.amount)', kind='sqlite'),
    # user init code (the `user_init_code` parameter): what one query defines is not there for the next one
    S('init-defines-fmt', 'select fmt(a1), a2', init='def fmt(x):\n    return "<" + x + ">"\n'), S('init-defines-fmt-differently', 'select fmt(a1), a2', init='def fmt(x):\n    return x.upper() + "!"\nUNIT = "kg"\n'),
    S('uses-fmt-without-init', 'select fmt(a1), a2'), S('uses-name-from-other-init', 'select a1 + UNIT'), S('init-redefines-builtin-name', 'select len(a1), a2', init='def len(x):\n    return -1\n'),
    S('uses-len-normally', 'select len(a1), a2'), S('init-with-error', 'select a1', init='this is not python'),
    # the same select-list text under different query heads (anything cached per select text must not be altered by one of them)
    S('same-select-plain', 'select a.k, a["tags"] as t', a_names=NAMES), S('same-select-distinct-count', 'select distinct count a.k, a["tags"] as t', a_names=NAMES),
    S('same-select-distinct', 'select distinct a.k, a["tags"] as t', a_names=NAMES), S('same-select-top', 'select top 2 a.k, a["tags"] as t order by a.n', a_names=NAMES),
    S('same-select-agg-alias', 'select a.k, count(*) as cnt group by a.k', a_names=NAMES), S('same-select-agg-alias-distinct-count', 'select distinct count a.k, NR % 2 as cnt', a_names=NAMES),
    # every writer / clause kind failing midway (state accumulated before the failure must not survive the query)
    S('fails-midway-distinct-count', 'select distinct count a1, 1 / (10 - int(a2))'), S('fails-midway-distinct', 'select distinct a1, 1 / (4 - NR)'), S('fails-midway-agg', 'select a1, sum(1 / (3 - NR)), count(*) group by a1'),
    S('fails-midway-join', 'select a1, b2, 1 / (3 - NR) join b on a1 == b1', B=T2), S('fails-midway-update', "update a2 = 1 / (4 - NR), a1 = 'W'"), S('fails-midway-unnest', "select a1, UNNEST([1 / (3 - NR), 2])"),
    S('fails-midway-median', 'select a1, MEDIAN(int(a2)), MIN(1 / (5 - NR)) group by a1'),
    S('csv', 'select a1, a2 where a2 != "2"', kind='csv'), S('csv-bad-utf8', 'select a1', kind='csv-bad'), S('pandas', "select a1, a2 + '!' order by a2", kind='pandas'),
]


def run_scenario(sc, scratch):
    """Returns a JSON-able (out, header, warnings, error-class+message)."""
    rbql = engine.rbql
    kind = sc['kind']
    if kind == 'table':
        # the very same table objects are handed to every query of a history: a query that modified its sources would change later results
        r = engine.run_table(sc['query'], sc['A'], sc['B'], sc['a_names'], sc['b_names'], init=sc.get('init') or '')
        return jsonable({'out': r['out'], 'header': r['header'], 'warnings': r['warnings'], 'error': r['error']})
    if kind == 'sqlite':
        from rbql import rbql_sqlite
        con = shared_sqlite_connection(scratch)
        dst = os.path.join(scratch, 'c16_%d_sql_out.csv' % os.getpid())
        w = []
        try:
            rbql_sqlite.query_sqlite_to_csv(sc['query'], con, 't', dst, ',', 'quoted', sc.get('enc') or 'utf-8', w)
            with open(dst, 'rb') as f:
                out = f.read().hex()
            return {'out': out, 'header': None, 'warnings': w, 'error': None}
        except Exception as e:
            return {'out': None, 'header': None, 'warnings': w, 'error': engine.err_info(e)}
    if kind == 'csv-color':
        # colorized output (the --color option) of a table with more columns than there are basic colours
        src, dst = os.path.join(scratch, 'c16_%d_cin.csv' % os.getpid()), os.path.join(scratch, 'c16_%d_cout.csv' % os.getpid())
        with open(src, 'wb') as f:
            f.write(refcsv.write_table(sc['A'], ',', 'quoted').encode())
        w = []
        try:
            rbql.query_csv(sc['query'], src, ',', 'quoted', dst, ',', 'simple', 'utf-8', w, False, None, '', True)
            with open(dst, 'rb') as f:
                out = f.read().hex()
            return {'out': out, 'header': None, 'warnings': w, 'error': None}
        except Exception as e:
            return {'out': None, 'header': None, 'warnings': w, 'error': engine.err_info(e)}
    if kind in ('csv', 'csv-bad'):
        src, dst = os.path.join(scratch, 'c16_%d_in.csv' % os.getpid()), os.path.join(scratch, 'c16_%d_out.csv' % os.getpid())
        data = refcsv.write_table(sc['A'], ',', 'quoted').encode()
        if kind == 'csv-bad':
            data = data[:7] + b'\xff' + data[7:]
        with open(src, 'wb') as f:
            f.write(data)
        w = []
        try:
            rbql.query_csv(sc['query'], src, ',', 'quoted', dst, ',', 'quoted', 'utf-8', w, False)
            with open(dst, 'rb') as f:
                out = f.read().decode()
            return {'out': out, 'header': None, 'warnings': w, 'error': None}
        except Exception as e:
            return {'out': None, 'header': None, 'warnings': w, 'error': engine.err_info(e)}
    if kind == 'pandas':
        import pandas
        df = pandas.DataFrame(copy.deepcopy(sc['A']))
        try:
            res = rbql.query_pandas_dataframe(sc['query'], df, [])
            return {'out': res.values.tolist(), 'header': None, 'warnings': [], 'error': None}
        except Exception as e:
            return {'out': None, 'header': None, 'warnings': [], 'error': engine.err_info(e)}
    raise ValueError(kind)


def fresh_results(indices, scratch):
    """Each scenario alone in a fresh interpreter (one sub-process per scenario, run concurrently)."""
    env = dict(os.environ, PYTHONPATH=VERIF_ROOT, VERIF_REPO=REPO, PYTHONHASHSEED='0', PYTHONWARNINGS='ignore')
    procs = []
    for i in indices:
        code = 'import sys, json, tempfile; from vf.checks import c16; print(json.dumps(c16.run_scenario(c16.POOL[%d], %r)))' % (i, scratch)
        procs.append((i, subprocess.Popen([sys.executable, '-W', 'ignore', '-c', code], stdout=subprocess.PIPE, stderr=subprocess.PIPE, env=env, cwd=VERIF_ROOT, text=True)))
    out = {}
    for i, p in procs:
        so, se = p.communicate(timeout=120)
        if p.returncode != 0:
            raise HarnessError('fresh interpreter for scenario %s failed: %s' % (POOL[i]['name'], se[-500:]))
        out[i] = json.loads(so.strip().splitlines()[-1])
    return out


_FRESH_CACHE = {}


def get_fresh(scratch):
    if 'all' not in _FRESH_CACHE:
        res = {}
        idx = list(range(len(POOL)))
        for start in range(0, len(idx), 8):
            res.update(fresh_results(idx[start:start + 8], scratch))
        _FRESH_CACHE['all'] = res
    return _FRESH_CACHE['all']


def family(name):
    return name.split('-')[0]


def check_history(seq, fresh, scratch, stats=None, distinct=True):
    got = []
    for i in seq:
        r = run_scenario(POOL[i], scratch)
        got.append(r)
        if r != fresh[i]:
            raise Violation('history-changes-result', {'history': [POOL[j]['name'] for j in seq], 'step': len(got), 'scenario': POOL[i]['name'], 'query': POOL[i]['query'],
                                                       'in_history': r, 'fresh_interpreter': fresh[i]})
    if stats is not None:
        nt = False
        for x in range(len(seq)):
            for y in range(x + 1, len(seq)):
                if fresh[seq[x]]['error'] is not None and fresh[seq[y]]['error'] is None:
                    nt = True
        stats.case(seq, nt, ['history-len-%d' % len(seq)], sample={'history': [POOL[j]['name'] for j in seq]}, distinct_by_construction=distinct)


def shard_histories(shard, nshards, tier, seed, scratch):
    stats = Stats()
    failures = []
    fresh = get_fresh(scratch)
    n = len(POOL)
    try:
        # every ordered pair
        cnt = 0
        for i in range(n):
            for j in range(n):
                cnt += 1
                if cnt % nshards == shard:
                    check_history([i, j], fresh, scratch, stats)
        # every ordered triple (thorough) / a deterministic sample of them (quick)
        cnt = 0
        step = 1 if tier == 'thorough' else max(1, n ** 3 // 3500) | 1     # about 3500 sampled triples (an odd stride visits all residues)
        for t in itertools.product(range(n), repeat=3):
            cnt += 1
            if cnt % step == 0 and (cnt // step) % nshards == shard:
                check_history(list(t), fresh, scratch, stats)
    except Violation as v:
        failures.append({'leg': 'histories', 'clause': v.clause, 'detail': v.detail, 'case': {'kind': 'history', 'seq': v.detail['history']}})
    # rule-based state machine over longer histories
    if not failures:
        maxlen = 6 if tier == 'quick' else 12
        holder = {'fail': None}

        class Machine(RuleBasedStateMachine):
            def __init__(self):
                RuleBasedStateMachine.__init__(self)
                self.seq = []

            @rule(i=st.integers(0, n - 1))
            def run_one(self, i):
                self.seq.append(i)
                r = run_scenario(POOL[i], scratch)
                if r != fresh[i]:
                    v = Violation('history-changes-result', {'history': [POOL[j]['name'] for j in self.seq], 'step': len(self.seq), 'scenario': POOL[i]['name'], 'in_history': r, 'fresh_interpreter': fresh[i]})
                    if holder['fail'] is None or len(self.seq) < len(holder['fail'].detail['history']):
                        holder['fail'] = v
                    raise v

            def teardown(self):
                if self.seq:
                    nt = any(fresh[self.seq[x]]['error'] is not None and fresh[self.seq[y]]['error'] is None for x in range(len(self.seq)) for y in range(x + 1, len(self.seq)))
                    stats.case(list(self.seq), nt, ['machine-history-len-%d' % len(self.seq)], sample={'history': [POOL[j]['name'] for j in self.seq]})
        try:
            run_state_machine_as_test(hypothesis.seed(seed)(Machine), settings=settings(max_examples=(25 if tier == 'quick' else 400), stateful_step_count=maxlen, deadline=None, database=None,
                                                                                        suppress_health_check=list(HealthCheck), report_multiple_bugs=False, print_blob=False,
                                                                                        verbosity=hypothesis.Verbosity.quiet))
        except Violation:
            pass
        except Exception as e:
            if holder['fail'] is None:
                raise HarnessError('state machine failed without a violation: %r' % (e,))
        if holder['fail'] is not None:
            v = holder['fail']
            failures.append({'leg': 'histories', 'clause': v.clause, 'detail': v.detail, 'case': {'kind': 'history', 'seq': v.detail['history']}})
    return {'stats': stats.export(), 'failures': failures}


# ---------------------------------------------------------------------------------------------
# consecutive queries in one rbql-js process (sequential isolation; the module-global context of rbql-js
# rules out concurrent use, which is documented and not claimed)

JS_POOL = [
    ('select', 'select a1, a2'), ('select-expr', "select a1 + '-' + a2, a3.length, NR, NF"), ('where', 'select * where parseInt(a2) > 2'), ('except', 'select * except a2'),
    ('order', 'select a1, a2 order by parseInt(a2) desc'), ('distinct', 'select distinct a1'), ('distinct-count', 'select distinct count a1'), ('top', 'select top 2 a1'),
    ('unnest', "select a1, UNNEST(a3.split(','))"), ('agg', 'select a1, count(*), sum(parseInt(a2)), max(a2) group by a1'), ('agg2', 'select COUNT(*), AVG(a2), MEDIAN(a2)'),
    ('like', "select a1, like(a3, 'x%'), like(a1, '_')"), ('like-upper', "select a1, like(a3, 'X%'), like(a1, 'A')"), ('join', 'select a1, b2 join b on a1 == b1'), ('left-join', 'select a1, b2 left join b on a1 == b1'),
    ('update', "update a3 = a1 + a2, a1 = 'U' where a1 != 'b'"), ('update-2', "update a1 = 'x', a2 = 'y'"), ('update-set', 'update set a2 = NU'), ('update-unknown-field', "update a1 = 10, a.price = 100"),
    ('update-bad-start', "update zz = 1"), ('parse-error', 'select a1 where a1 = 1'), ('syntax-error', 'select a1 +'), ('runtime-error', 'select a1, nosuchfn(a2)'), ('runtime-error-3', "select a1, (NR == 3 ? nosuchfn(a2) : a2)"),
    ('agg-misuse', 'select MAX(a2) + 1'), ('two-unnest', 'select UNNEST([1]), UNNEST([2])'), ('strict-fails', 'select a1 strict left join b on a1 == b1'), ('header', 'select a.k, a["tags"] as t, NR'),
    ('join-unknown-field', 'select a1 join b on a1 == b9'),
]


def js_run(drv, idx):
    name, q = JS_POOL[idx]
    names = NAMES if name == 'header' else None
    r = drv.query_table(q, copy.deepcopy(T1), copy.deepcopy(T2), names, ['k', 'w'] if names else None)
    return {'out': r['out'], 'header': r['header'], 'warnings': r['warnings'], 'error': r['error'], 'A_after': r['A_after']}


def shard_js_histories(shard, nshards, tier, seed, scratch):
    from .. import jsdriver
    stats = Stats()
    failures = []
    n = len(JS_POOL)
    fresh = {}
    for i in range(n):
        d = jsdriver.Driver()     # a fresh node process per scenario
        try:
            fresh[i] = js_run(d, i)
        finally:
            d.close()
    drv = jsdriver.Driver()
    try:
        seqs = [[i, j] for i in range(n) for j in range(n)]
        step = 1 if tier == 'thorough' else 7
        cnt = 0
        for t in itertools.product(range(n), repeat=3):
            cnt += 1
            if cnt % step == 0:
                seqs.append(list(t))
        for seq in seqs:
            for pos, i in enumerate(seq):
                r = js_run(drv, i)
                if r != fresh[i]:
                    failures.append({'leg': 'js-histories', 'clause': 'js-history-changes-result',
                                     'detail': {'history': [JS_POOL[j][1] for j in seq], 'step': pos + 1, 'in_history': r, 'fresh_process': fresh[i]}, 'case': {'kind': 'js-history', 'seq': seq}})
                    break
            nt = any(fresh[seq[x]]['error'] is not None and fresh[seq[y]]['error'] is None for x in range(len(seq)) for y in range(x + 1, len(seq)))
            stats.case(seq, nt, ['js-history-len-%d' % len(seq)], sample={'history': [JS_POOL[j][0] for j in seq]}, distinct_by_construction=True)
            if failures:
                break
    finally:
        drv.close()
    return {'stats': stats.export(), 'failures': failures[:1]}


# ---------------------------------------------------------------------------------------------
# interleavings

def ispec(name, query, n, B=None, a_names=None, b_names=None):
    A = [r for r in T1[:n]]
    return {'name': name, 'query': query, 'A': A, 'B': B, 'a_names': a_names, 'b_names': b_names}


def count_steps(spec):
    class _Count(object):
        def __init__(self):
            self.n = 0

        def yield_point(self, tid):
            self.n += 1
    c = _Count()
    sched.make_body(c, spec)(0)
    return c.n


def pairs_for(tier):
    def mk(n, nb):
        return {s['name']: s for s in [
            ispec('select', "select a1, a2 + '!'", n), ispec('sorted', 'select a1, a2 order by int(a2) desc', n), ispec('aggregate', 'select a1, count(*), sum(int(a2)) group by a1', n),
            ispec('distinct-count', 'select distinct count a1', n), ispec('unnest', "select a1, UNNEST(a3.split(','))", n), ispec('join', 'select a1, b2 join b on a1 == b1', n, B=T2[:nb]),
            ispec('update', "update a1 = 'U' + a2 where a1 != 'b'", n), ispec('like', "select a1 where like(a3, '%y') or like(a1, '_')", n),
            ispec('runtime-error', 'select a1, 1 / (2 - NR)', n), ispec('parse-error', 'select a1 where a1 = 1', n), ispec('distinct', 'select distinct a1 where a2 != "9"', n),
            ispec('top', 'select top 1 a1, NR', n), ispec('header', 'select a.k, NR as r order by a.k', n, a_names=NAMES),
            ispec('join-2-keys', 'select a1, b2 join b on a1 == b1 and a2 == b2', n, B=[['a', '1'], ['b', '9']][:nb]), ispec('join-nr', 'select a1, b2 left join b on NR == bNR', n, B=T2[:nb]),
            ispec('dict-key', 'select a["tags"], a["k"]', n, a_names=NAMES), ispec('missing-dict-key', 'select a1, a["tags"]', n, a_names=['k', 'n', 'other']),
        ]}
    out = []
    small = mk(2, 1)
    sel = [('unnest', 'distinct'), ('sorted', 'aggregate'), ('join', 'update'), ('like', 'runtime-error'), ('distinct-count', 'parse-error'), ('select', 'top'), ('header', 'sorted'), ('runtime-error', 'sorted'),
           ('dict-key', 'missing-dict-key'), ('join', 'join-2-keys')]
    for a, b in sel:
        out.append((small[a], small[b], 2))
    if tier == 'thorough':
        small2 = mk(2, 2)
        out.append((small2['join'], small2['update'], 2))
        out.append((small2['join'], small2['join'], 2))
        out.append((small2['join'], small2['join-2-keys'], 2))
        out.append((small['join-nr'], small['join-2-keys'], 2))
        out.append((small['join-nr'], small['join'], 2))
        out.append((small['aggregate'], small['aggregate'], 2))
        out.append((small['like'], small['like'], 2))
        out.append((small['unnest'], small['sorted'], 2))
        mid = mk(3, 1)
        for a, b in [('unnest', 'distinct'), ('sorted', 'aggregate'), ('select', 'top'), ('like', 'runtime-error'), ('join', 'update')]:
            out.append((mid[a], mid[b], 3))
    return out


def shard_interleavings(shard, nshards, tier, seed, scratch):
    stats = Stats()
    failures, seen = [], set()
    depth = 4
    roots = list(itertools.product([0, 1], repeat=depth))
    job = 0
    for s0, s1, n in pairs_for(tier):
        alone0, alone1 = sched.run_alone(s0), sched.run_alone(s1)
        for root in roots:
            job += 1
            if job % nshards != shard:
                continue
            count = 0
            for taken, res, mid in sched.explore(s0, s1, root):
                count += 1
                stats.evaluations += 1
                if mid:
                    stats.nontrivial_counted += 1
                if res[0] != alone0 or res[1] != alone1:
                    key = (s0['name'], s1['name'])
                    if key not in seen:
                        seen.add(key)
                        which = 0 if res[0] != alone0 else 1
                        failures.append({'leg': 'interleavings', 'clause': 'interleaving-changes-result',
                                         'detail': {'queries': [s0['query'], s1['query']], 'schedule': ''.join(str(c) for c in taken), 'affected': [s0, s1][which]['name'],
                                                    'interleaved': jsonable(res[which]), 'alone': jsonable([alone0, alone1][which])},
                                         'case': {'kind': 'interleaving', 's0': s0, 's1': s1, 'schedule': taken}})
                    break
            stats.bump('pair-%s+%s-n%d' % (s0['name'], s1['name'], n), count)
    stats.samples = [{'queries': ["select a1, UNNEST(a3.split(','))", 'select distinct a1 where a2 != "9"'], 'records': 2, 'schedule_example': '0110100110', 'switch_points': 'get_record / write / set_header / finish'}]
    return {'stats': stats.export(), 'failures': failures, 'extra': {'exhaustive': True}}


def replay(case, clause=None):
    import tempfile, shutil
    d = tempfile.mkdtemp(prefix='vf_c16_')
    try:
        if case.get('kind') == 'js-history':
            from .. import jsdriver
            drv = jsdriver.Driver()
            try:
                for i in case['seq']:
                    f = jsdriver.Driver()
                    try:
                        fr = js_run(f, i)
                    finally:
                        f.close()
                    r = js_run(drv, i)
                    if r != fr:
                        raise Violation('js-history-changes-result', {'history': [JS_POOL[j][1] for j in case['seq']], 'in_history': r, 'fresh_process': fr})
            finally:
                drv.close()
        elif case.get('kind') == 'history':
            idx = [[s['name'] for s in POOL].index(nm) for nm in case['seq']]
            fresh = fresh_results(sorted(set(idx)), d)
            check_history(idx, fresh, d)
        else:
            s = sched.Scheduler(case['schedule'])
            res = s.run([sched.make_body(s, case['s0']), sched.make_body(s, case['s1'])])
            if res[0] != sched.run_alone(case['s0']) or res[1] != sched.run_alone(case['s1']):
                raise Violation('interleaving-changes-result', {'schedule': case['schedule'], 'results': jsonable(res)})
    finally:
        shutil.rmtree(d, ignore_errors=True)


def probe_known(k):
    return False
