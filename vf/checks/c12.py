# C12 - CSV reading depends only on content, never on how the stream is chunked.
from __future__ import annotations

import itertools
import os

from hypothesis import strategies as st

from ..common import Stats, run_hypothesis, Violation
from .. import refcsv, engine
from ..faults import PiecewiseText, PiecewiseRaw, partition, cut_positions

from rbql import rbql_csv  # noqa: E402

PROP = 'C12'
LEVEL = 'exploration'
RULE = ('Exhaustive: every text of length n over {a, ", comma, LF, CR, #, space} x all 2^(n-1) partitions delivered by a harness stream whose read() '
        'returns the prescribed pieces (chunk_size n+1, i.e. never subdividing) + the whole text at every chunk_size 1..n + every partition at chunk_size 2, '
        'x comment prefix {none, #} x header {off, on}; n <= 5 (quick) for all five policies; thorough: n <= 6 for all policies and n = 7 for quoted and quoted_rfc. '
        'A delivery of partition P with chunk size k yields the same sequence of read() results as the refinement of P into k-sized pieces, so all '
        '(partition, chunk size) pairs of the quantifier are covered by "all partitions at a non-subdividing chunk size". Byte level: all partitions of '
        'UTF-8 / latin-1 samples (2-, 3-, 4-byte characters, BOM, CRLF; <= 18 bytes) through io.TextIOWrapper over a raw stream with short reads. '
        'Hypothesis: long random texts with random cut sets and chunk sizes. Oracle: (records, header, warnings, error) of every delivery == whole-string '
        'delivery == reference line breaker + reference splitter. Non-trivial = a cut inside a CRLF pair, directly after a CR, inside a multi-byte '
        'character or inside a quoted field; enumerated deliveries are distinct by construction.'
        ' Later additions: deterministic big inputs (30000 short rows, 6000-character lines read at chunk sizes 1-3, a 2500-line record, 4000-field records, tokens straddling 1024*k and 8192, pieces of mixed sizes, real files), long CRLF lines with a read ending between CR and LF.')
ASSUMPTIONS = ['the harness stream never returns more than requested and never returns an empty string before the end',
               'record numbers in warnings count the header line when a header is in force (as the property states)']

ALPHABET = ['a', '"', ',', '\n', '\r', '#', ' ']
POLICIES = [('quoted', ','), ('quoted_rfc', ','), ('simple', ','), ('whitespace', ' '), ('monocolumn', '')]


def plan(tier):
    return {'stages': [('shard_enum', 12), ('shard_bytes', 2), ('shard_random', 2)], 'timeout_s': 5400}


def observe(stream, encoding, dlm, policy, comment, has_header, chunk_size):
    try:
        it = rbql_csv.CSVRecordIterator(stream, encoding, dlm, policy, has_header=has_header, comment_prefix=comment, chunk_size=chunk_size)
        recs = it.get_all_records()
        return (recs, it.get_header(), it.get_warnings(), None)
    except Exception as e:
        inf = engine.err_info(e)
        return (None, None, None, (inf['cls'], inf['msg']))


def expected(text, dlm, policy, comment, has_header, bom=None):
    strip = False
    if bom is not None and text.startswith(bom):
        text = refcsv.BOM + text[len(bom):]
        strip = True
    res = refcsv.read_table(text, dlm, policy, comment, strip)
    if res['error'] is not None:
        return (None, None, None, ('RbqlIOHandlingError', res['error']))
    recs = res['records']
    header = None
    if has_header:
        header = recs[0] if recs else None
        recs = recs[1:]
    return (recs, header, refcsv.warnings_text(res), None)


def interesting_cut(text, cuts):
    inq = False
    for i, ch in enumerate(text):
        if i in cuts:
            if inq or (i > 0 and text[i - 1] == '\r'):
                return True
        if ch == '"':
            inq = not inq
    return False


def check_text(text, dlm, policy, comment, has_header, stats, masks=None, failures=None, seen=None):
    n = len(text)
    cfg = {'text': text, 'policy': policy, 'delim': dlm, 'comment': comment, 'header': has_header}
    exp = expected(text, dlm, policy, comment, has_header)
    whole = observe(PiecewiseText([text]), None, dlm, policy, comment, has_header, n + 1)
    stats.evaluations += 1
    if whole != exp:
        raise Violation('whole-vs-reference', dict(cfg, got=whole, expected=exp))
    for k in range(1, n + 1):
        stats.evaluations += 1
        got = observe(PiecewiseText([text]), None, dlm, policy, comment, has_header, k)
        if got != whole:
            raise Violation('chunk-size', dict(cfg, chunk_size=k, got=got, whole=whole))
    for mask in (masks if masks is not None else range(1, 1 << max(n - 1, 0))):
        pieces = partition(text, mask)
        for cs in ((n + 1, 2) if n <= 6 else (n + 1,)):
            stats.evaluations += 1
            got = observe(PiecewiseText(pieces), None, dlm, policy, comment, has_header, cs)
            if got != whole:
                raise Violation('partition', dict(cfg, pieces=pieces, chunk_size=cs, got=got, whole=whole))
        if interesting_cut(text, set(cut_positions(mask, n))):
            stats.nontrivial_counted += (2 if n <= 6 else 1)


def shard_enum(shard, nshards, tier, seed, scratch):
    stats = Stats()
    failures = []
    seen = set()
    layers = [(n, POLICIES) for n in range(0, 6)]
    if tier == 'thorough':
        layers += [(6, POLICIES), (7, POLICIES[:2])]
    counter = 0
    for n, pols in layers:
        for tup in itertools.product(ALPHABET, repeat=n):
            counter += 1
            if counter % nshards != shard:
                continue
            text = ''.join(tup)
            for policy, dlm in pols:
                for comment in (None, '#'):
                    if comment and '#' not in text:
                        continue   # identical to the run without a prefix
                    for has_header in (False, True):
                        try:
                            check_text(text, dlm, policy, comment, has_header, stats)
                        except Violation as v:
                            key = (policy, v.clause)
                            if key not in seen:
                                seen.add(key)
                                failures.append({'leg': 'enum', 'clause': v.clause, 'detail': v.detail,
                                                 'case': {'kind': 'text', 'text': text, 'policy': policy, 'delim': dlm, 'comment': comment, 'header': has_header}})
            if n == 5 and len(stats.samples) < 2 and '\r' in text and '"' in text and counter % 211 == 0:
                stats.samples.append({'text': text, 'partitions': 1 << (n - 1), 'policies': [p for p, _ in pols], 'expected_quoted': expected(text, ',', 'quoted', None, False)[0]})
        stats.bump('layer-n=%d-policies=%d' % (n, len(pols)))
    return {'stats': stats.export(), 'failures': failures, 'extra': {'exhaustive': True, 'max_text_length': layers[-1][0]}}


# ---------------------------------------------------------------------------------------------
# byte level

BYTE_SAMPLES = [
    ('utf-8', 'é,"ж\r\n€",𝄞\r\nz'),
    ('utf-8', '\ufeffa,é\r\n"x\r\ny",€\n'),
    ('utf-8', '#c\r\n𝄞"\r\r\n"a",é'),
    ('utf-8', '\ufeff#ж\n€,"""\r\n"'),
    ('latin-1', 'é,"ÿ\r\n",\xa0\r\n#z\ré'),
    ('latin-1', '\xef\xbb\xbfa,\xe9\r\n"q""\r\n",b'),
    ('utf-8', 'x\r\n\ufeffé\n\ufeff#\r\ufeff'),
    ('latin-1', 'a\n\xef\xbb\xbfb\r\n\xef\xbb\xbf'),
]


def shard_bytes(shard, nshards, tier, seed, scratch):
    stats = Stats()
    failures = []
    seen = set()
    for si, (enc, text) in enumerate(BYTE_SAMPLES):
        data = text.encode(enc)
        n = len(data)
        if tier == 'quick':
            data = data[:13]
            text = data.decode(enc, errors='ignore')
            data = text.encode(enc)
            n = len(data)
        bom = {'utf-8': '\ufeff', 'latin-1': '\xef\xbb\xbf'}[enc]
        # positions inside a multi-byte character
        inside = set()
        pos = 0
        for ch in text:
            w = len(ch.encode(enc))
            for j in range(1, w):
                inside.add(pos + j)
            pos += w
        crlf = set(i + 1 for i in range(n - 1) if data[i:i + 2] == b'\r\n')
        for policy, dlm in POLICIES[:3]:
            for comment in (None, '#'):
                for has_header in (False, True):
                    cfg = {'encoding': enc, 'text': text, 'policy': policy, 'comment': comment, 'header': has_header}
                    exp = expected(text, dlm, policy, comment, has_header, bom)
                    whole = observe(PiecewiseRaw([data]), enc, dlm, policy, comment, has_header, 1024)
                    try:
                        if whole != exp:
                            raise Violation('bytes-whole-vs-reference', dict(cfg, got=whole, expected=exp))
                        for mask in range(1, 1 << (n - 1)):
                            if mask % nshards != shard:
                                continue
                            pieces = partition(data, mask)
                            cs = 1 + (mask % 7)
                            stats.evaluations += 1
                            got = observe(PiecewiseRaw(pieces), enc, dlm, policy, comment, has_header, cs)
                            if got != whole:
                                raise Violation('bytes-partition', dict(cfg, pieces=[p.hex() for p in pieces], chunk_size=cs, got=got, whole=whole))
                            cuts = set(cut_positions(mask, n))
                            if cuts & inside or cuts & crlf:
                                stats.nontrivial_counted += 1
                    except Violation as v:
                        key = (enc, policy, v.clause)
                        if key not in seen:
                            seen.add(key)
                            failures.append({'leg': 'bytes', 'clause': v.clause, 'detail': v.detail, 'case': dict(cfg, kind='bytes', delim=dlm, hex=data.hex())})
        if len(stats.samples) < 2:
            stats.samples.append({'encoding': enc, 'bytes': data.hex(), 'text': text, 'partitions': 1 << (n - 1)})
        stats.bump('byte-sample-%d' % si)
    return {'stats': stats.export(), 'failures': failures, 'extra': {'exhaustive': True}}


# ---------------------------------------------------------------------------------------------
# random long texts

@st.composite
def st_long(draw):
    policy, dlm = draw(st.sampled_from(POLICIES))
    piece = st.one_of(st.sampled_from(['a', '"', ',', '\n', '\r', '\r\n', '#', ' ', '""', '"a,b"', 'é', '𝄞', '\r\r\n', '"x\r\ny"', '#c\n', '\ufeff', '\n\ufeff']), st.text(max_size=5))
    text = ''.join(draw(st.lists(piece, min_size=0, max_size=60)))
    ncuts = draw(st.integers(0, 12))
    cuts = sorted(set(draw(st.lists(st.integers(1, max(1, len(text))), min_size=ncuts, max_size=ncuts))))
    return {'kind': 'long', 'text': text, 'policy': policy, 'delim': dlm, 'comment': draw(st.sampled_from([None, '#', '#c'])),
            'header': draw(st.booleans()), 'cuts': cuts, 'chunk_size': draw(st.sampled_from([1, 2, 3, 5, 7, 16, 1024])),
            'encoding': draw(st.sampled_from([None, 'utf-8']))}


def check_long(case, stats=None):
    text, policy, dlm = case['text'], case['policy'], case['delim']
    enc = case['encoding']
    if enc is None:
        pieces, start = [], 0
        for c in case['cuts']:
            if start < c <= len(text):
                pieces.append(text[start:c])
                start = c
        pieces.append(text[start:])
        mk = lambda ps: PiecewiseText(ps)
        whole_in = [text]
        bom = None
    else:
        data = text.encode('utf-8', errors='ignore')
        text = data.decode('utf-8')
        pieces, start = [], 0
        for c in case['cuts']:
            if start < c <= len(data):
                pieces.append(data[start:c])
                start = c
        pieces.append(data[start:])
        mk = lambda ps: PiecewiseRaw(ps)
        whole_in = [data]
        bom = '\ufeff'
    exp = expected(text, dlm, policy, case['comment'], case['header'], bom)
    whole = observe(mk(whole_in), enc, dlm, policy, case['comment'], case['header'], 1024)
    got = observe(mk(pieces), enc, dlm, policy, case['comment'], case['header'], case['chunk_size'])
    if stats is not None:
        stats.case(case, len(pieces) > 1 and ('\r' in text or '"' in text), ['long-' + policy, 'enc-%s' % enc], sample=case)
    if whole != exp:
        raise Violation('long-whole-vs-reference', dict(case, got=whole, expected=exp))
    if got != whole:
        raise Violation('long-partition', dict(case, got=got, whole=whole))


def big_texts(tier):
    """(name, text, dlm, policy): deterministic large inputs - many records per chunk, fields longer than a chunk, and
    tokens (CRLF, a quoted field with a line break, a doubled quote, a multi-byte character) straddling the offsets
    1024*k (default chunk size) and 8192 (decode block of the text layer)."""
    out = []
    out.append(('short-rows', ''.join('%d,a\n' % i for i in range(30000)), ',', 'quoted'))
    out.append(('one-char-rows-crlf', ''.join('%s\r\n' % 'abcdefg'[i % 7] for i in range(20000)), ',', 'simple'))
    out.append(('long-fields', ''.join('%d,"%s",%s\n' % (i, 'x' * (1500 + 37 * i) + '""' + 'y' * 900, 'z' * (i * 211 % 3000)) for i in range(12)), ',', 'quoted_rfc'))
    out.append(('one-line-of-6000-characters', 'a,' + 'x' * 6000 + ',z\nb,c,d\n' + 'y' * 3000, ',', 'quoted'))      # thousands of reads per line at chunk size 1 - 3
    out.append(('record-spanning-2500-lines', 'a,"' + '\r\n'.join('l%d,""q""' % i for i in range(2500)) + '",z\r\nnext,row,here\r\n', ',', 'quoted_rfc'))
    out.append(('wide-records', '::'.join('f%d' % i for i in range(4000)) + '\n' + '::'.join(['"a::b"'] * 4000) + '\n', '::', 'quoted'))
    line = 'abcdefgh,"q,1",xyz\r\n'
    tokens = [('crlf', '\r\n'), ('quoted-break', '"a,\r\nb"'), ('doubled-quote', '"a""b"'), ('4-byte', '\U0001d11e'), ('2-byte', '\xe9'), ('cr-cr-lf', '\r\r\n')]
    shifts = (-3, -2, -1, 0, 1, 2) if tier == 'quick' else tuple(range(-6, 7))
    for target in (1024, 2048, 8192):
        for shift in shifts:
            for name, tok in tokens:
                body = ''
                while len(body) + len(line) <= target + shift - 8:
                    body += line
                body += 'p' * max(target + shift - len(body) - 2, 0) + ','
                body += tok + ',tail\r\n' + line * 3
                out.append(('%s@%d%+d' % (name, target, shift), body, ',', 'quoted_rfc'))
    return out


def check_big(name, text, dlm, policy, scratch, stats):
    cfg = {'kind': 'big', 'name': name, 'policy': policy, 'delim': dlm, 'size': len(text)}
    exp = expected(text, dlm, policy, None, False, '\ufeff')
    data = text.encode('utf-8')
    modes = [('text-1024', lambda: observe(PiecewiseText([text]), None, dlm, policy, None, False, 1024)),
             ('text-4099', lambda: observe(PiecewiseText([text]), None, dlm, policy, None, False, 4099)),
             ('text-whole', lambda: observe(PiecewiseText([text]), None, dlm, policy, None, False, len(text) + 1)),
             ('utf8-1024', lambda: observe(PiecewiseRaw([data]), 'utf-8', dlm, policy, None, False, 1024)),
             ('utf8-pieces-1000-cs-64', lambda: observe(PiecewiseRaw([data[i:i + 1000] for i in range(0, len(data), 1000)]), 'utf-8', dlm, policy, None, False, 64))]
    def cyc(seq, sizes):
        out, pos, k = [], 0, 0
        while pos < len(seq):
            out.append(seq[pos:pos + sizes[k % len(sizes)]])
            pos += sizes[k % len(sizes)]
            k += 1
        return out
    for sizes in ([20, 1 << 20], [7, 3000, 1, 1024, 100, 65536], [1023, 1024, 1025, 1], [1, 70000]):
        modes.append(('utf8-mixed-pieces-%s' % '/'.join(map(str, sizes)), lambda sizes=sizes: observe(PiecewiseRaw(cyc(data, sizes)), 'utf-8', dlm, policy, None, False, 1024)))
        modes.append(('text-mixed-pieces-%s' % '/'.join(map(str, sizes)), lambda sizes=sizes: observe(PiecewiseText(cyc(text, sizes)), None, dlm, policy, None, False, 4096)))
    if len(text) <= 20000:
        modes.append(('text-3', lambda: observe(PiecewiseText([text]), None, dlm, policy, None, False, 3)))
        modes.append(('utf8-pieces-2-cs-1024', lambda: observe(PiecewiseRaw([data[i:i + 2] for i in range(0, len(data), 2)]), 'utf-8', dlm, policy, None, False, 1024)))
        modes.append(('text-1', lambda: observe(PiecewiseText([text]), None, dlm, policy, None, False, 1)))
    path = os.path.join(scratch, 'c12_big_%d.csv' % os.getpid())
    with open(path, 'wb') as f:
        f.write(data)

    def from_file():
        with open(path, 'rb') as f:
            return observe(f, 'utf-8', dlm, policy, None, False, 1024)
    modes.append(('file-utf8', from_file))
    for label, fn in modes:
        got = fn()
        stats.evaluations += 1
        stats.nontrivial_counted += 1
        if got != exp:
            d = dict(cfg, mode=label)
            if got[0] is None or exp[0] is None:
                d['got'], d['expected'] = repr(got)[:300], repr(exp)[:300]
            else:
                d['n_records'] = (len(got[0]), len(exp[0]))
                d['first_diff'] = next((i for i, (x, y) in enumerate(zip(got[0], exp[0])) if x != y), None)
                d['warnings'] = (got[2], exp[2])
            os.unlink(path)
            raise Violation('big-input-' + label.split('-')[0], d)
    os.unlink(path)


def shard_random(shard, nshards, tier, seed, scratch):
    total = 3000 if tier == 'quick' else 80000
    stats = Stats()
    fails = run_hypothesis(st_long(), lambda c: check_long(c, stats), max(1, total // nshards), seed, shrink_budget=300 if tier == 'quick' else 2000)
    seen = set()
    # long CRLF-terminated lines with a read ending exactly between the CR and the LF (the look-ahead for the LF with a long line buffered)
    if shard == 0:
        for L in (40, 255, 256, 257, 300, 683, 1023, 1024, 2047, 5000):
            text = ''.join('%d,' % i + 'x' * (L - 2 - len(str(i))) + '\r\n' for i in range(6)) + 'last,row'
            exp = expected(text, ',', 'quoted', None, False, None)
            for cs in (L + 1, 2 * (L + 2) - 1, 1024, 3 * (L + 2) - 1, L + 2):
                for policy in ('quoted', 'quoted_rfc', 'simple'):
                    got = observe(PiecewiseText([text]), None, ',', policy, None, False, cs)
                    stats.evaluations += 1
                    stats.nontrivial_counted += 1
                    if got != exp and 'crlf-long-line' not in seen:
                        seen.add('crlf-long-line')
                        fails.append({'clause': 'long-line-crlf-at-read-boundary', 'detail': {'line_length': L, 'chunk_size': cs, 'policy': policy, 'n_records': (len(got[0]) if got[0] is not None else None, len(exp[0])), 'warnings': got[2], 'error': got[3]},
                                      'case': {'kind': 'crlf-long', 'L': L, 'cs': cs, 'policy': policy}})
        stats.bump('long-crlf-lines')
    for i, (name, text, dlm, policy) in enumerate(big_texts(tier)):
        if i % nshards != shard:
            continue
        try:
            check_big(name, text, dlm, policy, scratch, stats)
            stats.bump('big-input')
        except Violation as v:
            if v.clause not in seen:
                seen.add(v.clause)
                fails.append({'clause': v.clause, 'detail': v.detail, 'case': {'kind': 'big', 'name': name}})
    for f in fails:
        f['leg'] = 'random'
    return {'stats': stats.export(), 'failures': fails}


def replay(case, clause=None):
    kind = case.get('kind')
    if kind == 'crlf-long':
        L = case['L']
        text = ''.join('%d,' % i + 'x' * (L - 2 - len(str(i))) + '\r\n' for i in range(6)) + 'last,row'
        exp = expected(text, ',', 'quoted', None, False, None)
        got = observe(PiecewiseText([text]), None, ',', case['policy'], None, False, case['cs'])
        if got != exp:
            raise Violation('long-line-crlf-at-read-boundary', {'line_length': L, 'chunk_size': case['cs']})
        return
    if kind == 'big':
        import tempfile, shutil
        d = tempfile.mkdtemp(prefix='vf_c12_')
        try:
            for name, text, dlm, policy in big_texts('thorough'):
                if name == case['name']:
                    check_big(name, text, dlm, policy, d, Stats())
        finally:
            shutil.rmtree(d, ignore_errors=True)
        return
    if kind == 'text':
        check_text(case['text'], case['delim'], case['policy'], case['comment'], case['header'], Stats())
    elif kind == 'long':
        check_long(case)
    else:
        enc = case['encoding']
        data = bytes.fromhex(case['hex'])
        text = data.decode(enc)
        bom = {'utf-8': '\ufeff', 'latin-1': '\xef\xbb\xbf'}[enc]
        exp = expected(text, case['delim'], case['policy'], case['comment'], case['header'], bom)
        n = len(data)
        for mask in range(0, 1 << (n - 1)):
            got = observe(PiecewiseRaw(partition(data, mask)), enc, case['delim'], case['policy'], case['comment'], case['header'], 1 + mask % 7)
            if got != exp:
                raise Violation('bytes-replay', {'mask': mask, 'got': got, 'expected': exp})


def probe_known(k):
    return False
