# C14 - Errors name the first offending record; warnings appear iff the anomaly occurred.
from __future__ import annotations

import copy
import os
import re

from hypothesis import strategies as st

from ..common import Stats, run_hypothesis, Violation
from .. import engine, refcsv
from ..engine import TraceWriter

from rbql import rbql_engine  # noqa: E402

PROP = 'C14'
LEVEL = 'exploration'
RULE = ('(1) Poison: clean tables with one or two poisoned records (non-numeric text, or a missing field) at every position k x every clause that can evaluate it '
        '(SELECT item, WHERE, ORDER BY key, GROUP BY key, aggregate argument, UPDATE right-hand side, UPDATE target past the end, JOIN key missing in A / in B), '
        'optionally with a WHERE that hides the first poison; expected: RbqlRuntimeError naming the 1-based number of the first offending record (and the field). '
        '(2) A catalogue of 30 text-level mistakes instantiated over random tables and keyword spellings: parsing-class error (RbqlParsingError or SyntaxError) '
        'and no write() reached the writer. (3) IO-level anomalies (invalid UTF-8, unbalanced quotes under quoted_rfc, header mode mismatch, column-name list of '
        'the wrong length): RbqlIOHandlingError. (4) Warnings: random CSV texts x input policy x output policy x query through query_csv, and ragged list tables '
        'through query_table; the warning set must equal the set of anomalies present according to reference predicates (field counts citing the first record '
        'of each of the first two lengths, None in CSV output, delimiter inside simple output, BOM, malformed quoting with its first line). '
        'Non-trivial = poison not in the first record, or a clean input checked for absence of every warning; distinct = case digests.'
        ' Later additions: whitespace input policy (zero-field records), multi-pair join-key poison, poison families raising UnicodeError / OSError, multi-character output delimiters with adjacent-field overlap.')
ASSUMPTIONS = ['record numbers in the field-count warning are asserted for header-less whole-scan queries',
               'for multi-character output delimiters the delimiter-in-output warning is asserted only for fields that contain the whole delimiter or share no character with it']


def plan(tier):
    return {'stages': [('shard_poison', 6), ('shard_text', 4), ('shard_warn', 6)], 'timeout_s': 3000}


# ---------------------------------------------------------------------------------------------
# (1) poison

CLAUSES = ['select', 'where', 'order', 'group', 'aggarg', 'aggarg-text', 'update-rhs', 'update-target', 'join-a', 'join-b', 'like-none', 'unnest-arg']


@st.composite
def st_poison(draw):
    n = draw(st.integers(1, 6))
    clause = draw(st.sampled_from(CLAUSES))
    A = [[draw(st.sampled_from(['k1', 'k2'])), str(draw(st.integers(0, 20))), draw(st.sampled_from(['x', 'y']))] for _ in range(n)]
    B = [['k1', 'b1v'], ['k2', 'b2v'], ['x', 'bx'], ['y', 'by']]
    ks = sorted(set(draw(st.lists(st.integers(1, n), min_size=1, max_size=2))))
    hide_first = len(ks) == 2 and draw(st.booleans()) and clause in ('select', 'order', 'group', 'aggarg', 'aggarg-text', 'update-rhs', 'update-target', 'unnest-arg')
    where = None
    if hide_first:
        where = 'NR != %d' % ks[0]
    expected_k = ks[1] if hide_first else ks[0]
    field = None
    fam = 'int'
    if clause in ('update-target', 'join-a'):
        for k in ks:
            A[k - 1] = A[k - 1][:2]      # a3 is missing
        field = 'a3'
    elif clause == 'join-b':
        kb = draw(st.integers(1, len(B)))
        B[kb - 1] = B[kb - 1][:1]
        expected_k = kb
        field = '2'
        hide_first = False
        where = None
    elif clause == 'like-none':
        for k in ks:
            A[k - 1][2] = None
    else:
        # what the offending evaluation raises: ValueError (int of a non-number), UnicodeError (encode of a non-ASCII value), OSError (stat of a missing path)
        fam = draw(st.sampled_from(['int', 'int', 'ascii', 'oserror']))
        for k in ks:
            A[k - 1][1] = draw(st.sampled_from({'int': ['POISON', '', '1x', 'None'], 'ascii': ['\xe9', '1\xe9', '\u20ac5'], 'oserror': ['POISON']}[fam]))
    kw = lambda s: draw(st.sampled_from([s, s.lower(), s.capitalize()]))
    sel, upd = kw('SELECT'), kw('UPDATE')
    if clause == 'select':
        q = '%s a1, int(a2) + 1' % sel
    elif clause == 'where':
        q = '%s a1 %s int(a2) >= 0' % (sel, kw('WHERE'))
    elif clause == 'order':
        q = '%s a1 %s int(a2)' % (sel, kw('ORDER BY'))
    elif clause == 'group':
        q = '%s count(*) %s int(a2)' % (sel, kw('GROUP BY'))
    elif clause == 'aggarg':
        q = '%s a1, %s(int(a2)) %s a1' % (sel, draw(st.sampled_from(['SUM', 'MAX', 'avg', 'MEDIAN', 'ARRAY_AGG'])), kw('GROUP BY'))
    elif clause == 'aggarg-text':
        q = '%s %s(a2)' % (sel, draw(st.sampled_from(['SUM', 'AVG', 'VARIANCE', 'MEDIAN', 'MIN', 'max'])))
    elif clause == 'update-rhs':
        q = '%s a1 = int(a2) * 2' % upd
    elif clause == 'update-target':
        q = "%s %s = 'z'" % (upd, draw(st.sampled_from(['a3', 'a[3]'])))
    elif clause == 'join-a':
        # one or several key pairs; the missing field (a3) at any position of the ON list, in SELECT and UPDATE
        on = draw(st.sampled_from(['a3 == b1', 'a3 == b1', 'a1 == b1 and a3 == b2', 'a3 == b2 and a1 == b1', 'a2 == b1 and a3 == b2', 'a2 == b2 and a1 == b1 and a3 == b1', 'NR == bNR and a3 == b1']))
        if draw(st.integers(0, 3)) == 0:
            q = "%s a1 = 'u' %s b on %s" % (upd, kw(draw(st.sampled_from(['JOIN', 'LEFT JOIN']))), on)
        else:
            q = '%s a1, b2 %s b on %s' % (sel, kw(draw(st.sampled_from(['JOIN', 'JOIN', 'LEFT JOIN', 'INNER JOIN']))), on)
    elif clause == 'join-b':
        q = '%s a1, b2 %s b on a1 == b2' % (sel, kw('LEFT JOIN'))
    elif clause == 'like-none':
        q = "%s a1 %s like(a3, 'x%%')" % (sel, kw('WHERE'))
    else:
        q = '%s a1, UNNEST(range(int(a2)))' % sel
    if clause not in ('update-target', 'join-a', 'join-b', 'like-none', 'aggarg-text') and fam != 'int':
        q = q.replace('int(a2)', {'ascii': "int(a2.encode('ascii'))", 'oserror': "(os.stat('/nonexistent-dir-' + a2).st_size if a2 == 'POISON' else int(a2))"}[fam])
    if where and 'WHERE' not in q.upper():
        q += ' where ' + where
    return {'kind': 'poison', 'clause': clause, 'A': A, 'B': B if clause.startswith('join') else None, 'query': q, 'expected_k': expected_k, 'field': field, 'ks': ks}


def check_poison(case, stats=None, scratch=None):
    A, B = copy.deepcopy(case['A']), copy.deepcopy(case['B'])
    res = engine.run_table(case['query'], A, B)
    k = case['expected_k']
    if stats is not None:
        stats.case(case, k > 1, ['poison-' + case['clause']], sample={'query': case['query'], 'A': case['A'], 'expected_record': k, 'error': res['error']})
    ctx = {'query': case['query'], 'A': case['A'], 'B': case['B'], 'expected_record': k}
    if res['error'] is None:
        raise Violation('poison-not-reported', dict(ctx, out=res['out'][:4]))
    if res['error']['cls'] != 'RbqlRuntimeError':
        raise Violation('poison-wrong-error-class', dict(ctx, error=res['error']))
    if not re.search(r'record %d(?![0-9])' % k, res['error']['msg']):
        raise Violation('poison-wrong-record-number', dict(ctx, error=res['error']))
    if case['field'] and case['field'] not in res['error']['msg']:
        raise Violation('poison-field-not-named', dict(ctx, error=res['error']))
    if scratch is not None and case['B'] is None and len(case['query']) % 3 == 0 and case['clause'] != 'like-none':
        # same through query_csv
        src, dst = os.path.join(scratch, 'c14_in.csv'), os.path.join(scratch, 'c14_out.csv')
        with open(src, 'w') as f:
            f.write(refcsv.write_table(case['A'], ',', 'quoted'))
        try:
            engine.rbql.query_csv(case['query'], src, ',', 'quoted', dst, ',', 'quoted', 'utf-8', [], False)
            err = None
        except Exception as e:
            err = engine.err_info(e)
        if stats is not None:
            stats.bump('poison-via-query_csv')
        if err is None or err['cls'] != 'RbqlRuntimeError' or not re.search(r'record %d(?![0-9])' % k, err['msg']):
            raise Violation('poison-query_csv', dict(ctx, error=err))


# ---------------------------------------------------------------------------------------------
# (2) text-level mistakes, (3) IO-level anomalies

MISTAKES = [
    ('no-select', 'a1, a2'), ('no-select-2', 'where a1 == 1'), ('select-not-first', "where a1 == 'x' select a1"), ('update-not-first', "select a1 update a2 = 1"),
    ('order-by-in-update', "update a1 = 'x' order by a1"), ('single-eq-in-where', "select a1 where a1 = 'x'"), ('non-integer-limit', 'select a1 limit x'),
    ('non-integer-limit-2', 'select a1 limit 1.5'), ('except-with-join', 'select * except a1 join b on a1 == b1'), ('unknown-attr', 'select a.nosuch'),
    ('unknown-except', 'select * except a.nosuch'), ('unknown-except-2', 'select * except zz'), ('unknown-update-field', "update a.nosuch = 'x'"),
    ('not-assignable', "update zz = 'x'"), ('empty-select', 'select   where a1'), ('agg-in-expr', 'select MAX(int(a2)) + 1'), ('agg-in-expr-2', "select 'n=' + str(COUNT(*))"), ('agg-attr', 'select MAX(a2).strip()'), ('agg-attr-2', 'select a1, MIN(a2).strip() group by a1'), ('agg-attr-3', 'select COUNT(*).real'),
    ('distinct-agg', 'select distinct SUM(int(a2))'), ('orderby-agg', 'select SUM(int(a2)) order by a1'), ('two-unnest', 'select UNNEST([1, 2]), UNNEST([3])'),
    ('syntax-1', 'select a1 +'), ('syntax-2', 'select (a1'), ('syntax-3', 'select a1 a2'), ('syntax-4', 'select a1 where a1 ==='), ('join-no-on', 'select a1 join b'),
    ('join-unknown-table', 'select a1 join nosuch on a1 == b1'), ('join-unknown-field', 'select a1 join b on a1 == c1'), ('join-unknown-field-2', 'select a1 join b on zz == b1'),
    ('top-not-int', 'select top x a1'), ('two-where', "select a1 where a1 == 'x' where a2 == 'y'"), ('update-groupby', "update a1 = 'x' group by a1"),
    ('star-alias-no-header', 'select *, a1 as x'),
]
KEYWORDS = ['select', 'update', 'where', 'order by', 'group by', 'limit', 'except', 'join', 'distinct', 'top']


@st.composite
def st_mistake(draw):
    name, q = draw(st.sampled_from(MISTAKES))
    # random keyword case
    for kw in KEYWORDS:
        form = draw(st.sampled_from([kw, kw.upper(), kw.title()]))
        q = re.sub(r'(?<![A-Za-z_.])%s(?![A-Za-z_(])' % kw, form, q)
    n = draw(st.integers(1, 5))
    A = [[draw(st.sampled_from(['x', 'y', 'k'])), str(draw(st.integers(0, 9)))] for _ in range(n)]
    hdr = name in ('unknown-attr', 'unknown-except', 'unknown-update-field') or (name != 'star-alias-no-header' and draw(st.booleans()))
    return {'kind': 'mistake', 'name': name, 'query': q, 'A': A, 'B': [['x', 'p'], ['y', 'q']], 'a_names': ['k', 'v'] if hdr else None, 'b_names': ['k', 'w'] if hdr else None}


def check_mistake(case, stats=None):
    r = engine.run_query_objects(case['query'], copy.deepcopy(case['A']), copy.deepcopy(case['B']), case['a_names'], case['b_names'])
    if stats is not None:
        stats.case(case, True, ['mistake-' + case['name']], sample={'query': case['query'], 'error': r['error']})
    ctx = {'query': case['query'], 'mistake': case['name'], 'a_names': case['a_names']}
    if r['error'] is None:
        raise Violation('mistake-accepted', dict(ctx, out=r['out'][:3]))
    if r['error']['cls'] not in ('RbqlParsingError', 'SyntaxError'):
        raise Violation('mistake-wrong-class', dict(ctx, error=r['error']))
    if any(t.startswith('write') for t in r['trace']):
        raise Violation('mistake-after-write', dict(ctx, trace=r['trace'][:6], error=r['error']))
    info = engine.rbql.exception_to_error_info(_Exc(r['error']))


class _Exc(Exception):
    def __init__(self, info):
        Exception.__init__(self, info['msg'])


IO_CASES = ['invalid-utf8', 'rfc-unbalanced', 'header-mismatch-a', 'header-mismatch-b', 'names-wrong-length', 'invalid-utf8-join', 'join-table-missing']


@st.composite
def st_io(draw):
    return {'kind': 'io', 'name': draw(st.sampled_from(IO_CASES)), 'pos': draw(st.integers(0, 30)), 'n': draw(st.integers(1, 5))}


def check_io(case, stats=None, scratch=None):
    name = case['name']
    rbql = engine.rbql
    rows = [['k%d' % i, str(i)] for i in range(case['n'])]
    text = refcsv.write_table(rows, ',', 'quoted')
    err = None
    try:
        if name in ('invalid-utf8', 'invalid-utf8-join', 'rfc-unbalanced', 'monocolumn-multi', 'join-table-missing'):
            src, dst, jn = os.path.join(scratch, 'io_in.csv'), os.path.join(scratch, 'io_out.csv'), os.path.join(scratch, 'io_join.csv')
            data = text.encode()
            bad = data[:case['pos'] % (len(data) + 1)] + b'\xff' + data[case['pos'] % (len(data) + 1):]
            policy, out_policy, query = 'quoted', 'quoted', 'select a1, a2'
            if name == 'rfc-unbalanced':
                data = data + b'x,"unbalanced\nz,w\n'
                policy = 'quoted_rfc'
            with open(src, 'wb') as f:
                f.write(bad if name == 'invalid-utf8' else data)
            with open(jn, 'wb') as f:
                f.write(bad if name == 'invalid-utf8-join' else data)
            if name == 'invalid-utf8-join':
                query = 'select a1, b2 join %s on a1 == b1' % jn
            if name == 'join-table-missing':
                query = 'select a1, b2 join %s on a1 == b1' % os.path.join(scratch, 'no_such_file.csv')
            if name == 'monocolumn-multi':
                out_policy = 'monocolumn'
            rbql.query_csv(query, src, ',', policy, dst, ',' if out_policy != 'monocolumn' else '', out_policy, 'utf-8', [], False)
        elif name == 'header-mismatch-a':
            rbql.query_table('select a1, b1 join b on a1 == b1', rows, [], [], rows, ['x', 'y'], None)
        elif name == 'header-mismatch-b':
            rbql.query_table('select a1, b1 join b on a1 == b1', rows, [], [], rows, None, ['x', 'y'])
        elif name == 'names-wrong-length':
            rbql.query_table('select a1', rows, [], [], None, ['x', 'y', 'z'][:1 + 2 * (case['pos'] % 2)])
    except Exception as e:
        err = engine.err_info(e)
    if stats is not None:
        stats.case(case, True, ['io-' + name], sample={'io_case': name, 'error': err})
    if err is None or err['cls'] != 'RbqlIOHandlingError':
        raise Violation('io-anomaly-not-io-error', {'case': name, 'error': err, 'pos': case['pos']})


# ---------------------------------------------------------------------------------------------
# (4) warnings

@st.composite
def st_warn_csv(draw):
    in_policy = draw(st.sampled_from(['quoted', 'quoted', 'simple', 'quoted_rfc', 'whitespace']))
    dlm = draw(st.sampled_from([',', ';', '\t', '|']))
    if in_policy == 'whitespace':
        dlm = ' '
    out_policy = draw(st.sampled_from(['simple', 'quoted', 'simple']))
    out_dlm = draw(st.sampled_from([dlm, ',', '\t', ';', '::', ', ', ':=']))
    clean = draw(st.integers(0, 3)) == 0
    nrows = draw(st.integers(0, 6))
    width = draw(st.integers(1, 3))
    lines = []
    for i in range(nrows):
        w = width if (clean or draw(st.integers(0, 3))) else draw(st.integers(1, 4))
        fields = []
        for _ in range(w):
            if clean:
                fields.append(draw(st.sampled_from(['a', 'b', 'x1', '', 'é', 'a b'])))
            else:
                fields.append(draw(st.sampled_from(['a', 'b', '', 'x' + out_dlm[0] + 'y', 'x' + out_dlm + 'y', 'x' + out_dlm[0], out_dlm[-1] + 'y', '"q"', 'a"b', '"a%sb"' % dlm, '" x"', 'é', ' "s" ', '"un', ';', ','])))
        if in_policy == 'whitespace':
            # space-separated words; a blank (or spaces-only) line is a record without any field
            fields = [draw(st.sampled_from(['a', 'b', 'x1', '\xe9', 'q"r', 'x' + out_dlm[0] + 'y'])) for _ in range(w)]
            if not clean and draw(st.integers(0, 3)) == 0:
                fields = []
            lines.append(draw(st.sampled_from(['', ' ', '  '])) + draw(st.sampled_from([' ', '  '])).join(fields) + draw(st.sampled_from(['', ' '])))
            continue
        lines.append(dlm.join(fields))
    comment = draw(st.sampled_from([None, None, '#', '//']))
    if comment is not None:
        # comment lines are skipped by the reader but still count as physical lines (line numbers in warnings)
        for _ in range(draw(st.integers(0, 3))):
            lines.insert(draw(st.integers(0, len(lines))), comment + draw(st.sampled_from([' note', '"unbalanced', 'a%sb%sc' % (dlm, dlm), ''])))
    text = ''.join(l + draw(st.sampled_from(['\n', '\n', '\r\n'])) for l in lines)
    if in_policy == 'quoted_rfc':
        # keep quotes balanced per line so that records are lines (multi-line records are C12's subject)
        text = ''.join(l + '\n' for l in lines if l.count('"') % 2 == 0 or (comment is not None and l.startswith(comment)))
    bom = (not clean) and draw(st.integers(0, 4)) == 0
    query = draw(st.sampled_from(['select *', 'select a1, a2', 'select a1, None', 'select a2, a1 where NR > 0', 'select NR, a1', 'select a1, a3', 'select a1, [a1, a2]', 'select ARRAY_AGG(a2), ARRAY_AGG(a1)']))
    return {'kind': 'warn-csv', 'comment': comment, 'text': text, 'bom': bom, 'in_policy': in_policy, 'delim': dlm, 'out_policy': out_policy, 'out_delim': out_dlm, 'query': query, 'clean': clean}


def expected_csv_warnings(case):
    res = refcsv.read_table((refcsv.BOM if case['bom'] else '') + case['text'], case['delim'], case['in_policy'], case.get('comment'), True)
    if res['error'] is not None:
        return None, None
    warns = set(refcsv.warnings_text(res))
    recs = res['records']
    q = case['query']
    out = []
    for nr, r in enumerate(recs, 1):
        g = lambda i: r[i] if i < len(r) else None
        if q == 'select *':
            out.append(list(r))
        elif q == 'select a1, a2':
            out.append([g(0), g(1)])
        elif q == 'select a1, None':
            out.append([g(0), None])
        elif q == 'select a2, a1 where NR > 0':
            out.append([g(1), g(0)])
        elif q == 'select NR, a1':
            out.append([str(nr), g(0)])
        elif q == 'select a1, [a1, a2]':
            out.append([g(0), [g(0), g(1)]])
        elif q == 'select ARRAY_AGG(a2), ARRAY_AGG(a1)':
            pass
        else:
            out.append([g(0), g(2)])
    if q == 'select ARRAY_AGG(a2), ARRAY_AGG(a1)' and recs:
        out = [[[ (r[1] if len(r) > 1 else None) for r in recs], [(r[0] if r else None) for r in recs]]]
    sub = '|' if case['out_delim'] != '|' else ';'

    def has_none(v):
        return v is None or (isinstance(v, list) and any(has_none(x) for x in v))

    def flat_text(v):
        return sub.join(flat_text(x) for x in v) if isinstance(v, list) else ('' if v is None else v)
    none_anywhere = any(has_none(c) for r in out for c in r)
    out = [[flat_text(c) for c in r] for r in out]
    if none_anywhere:
        warns.add('None values in output were replaced by empty strings')
    od = case['out_delim']
    undecidable = False
    if case['out_policy'] == 'simple':
        flat = [c for r in out for c in r]
        if any(refcsv.find_from(c, od, 0) != -1 for c in flat):
            warns.add('Some output fields contain separator')
        elif len(od) > 1 and any(refcsv.split_plain(od.join(r), od) != r for r in out):
            undecidable = True   # no field contains the delimiter but the joined line does not split back: C10's non-representable region
    return warns, undecidable


def check_warn_csv(case, stats=None, scratch=None):
    src, dst = os.path.join(scratch, 'w_in.csv'), os.path.join(scratch, 'w_out.csv')
    data = case['text'].encode('utf-8')
    if case['bom']:
        data = b'\xef\xbb\xbf' + data
    with open(src, 'wb') as f:
        f.write(data)
    exp, undecidable = expected_csv_warnings(case)
    got = []
    try:
        engine.rbql.query_csv(case['query'], src, case['delim'], case['in_policy'], dst, case['out_delim'], case['out_policy'], 'utf-8', got, False, case.get('comment'))
        err = None
    except Exception as e:
        err = engine.err_info(e)
    if stats is not None:
        stats.case(case, bool(exp is not None and (case['clean'] or len(exp) >= 1)), ['warn-csv', 'warn-csv-clean' if (exp is not None and not exp) else 'warn-csv-%d' % (len(exp) if exp is not None else -1)],
                   sample={'text': case['text'], 'query': case['query'], 'in': [case['delim'], case['in_policy']], 'out': [case['out_delim'], case['out_policy']], 'warnings': got})
    ctx = dict(case, got=got)
    if exp is None:
        if err is None or err['cls'] != 'RbqlIOHandlingError':
            raise Violation('rfc-defect-not-io-error', dict(ctx, error=err))
        return
    if err is not None:
        raise Violation('warn-unexpected-error', dict(ctx, error=err))
    gs = set(got)
    if len(got) != len(gs):
        raise Violation('duplicate-warning', ctx)
    if undecidable:
        gs.discard('Some output fields contain separator')
    if gs != exp:
        raise Violation('warning-set', dict(ctx, expected=sorted(exp), missing=sorted(exp - gs), spurious=sorted(gs - exp)))


@st.composite
def st_warn_table(draw):
    n = draw(st.integers(0, 7))
    lens = [draw(st.sampled_from([2, 2, 2, 1, 3, 4])) for _ in range(n)] if draw(st.booleans()) else [2] * n
    A = [['v'] * l for l in lens]
    nb = draw(st.integers(0, 4))
    blens = [draw(st.sampled_from([1, 1, 2, 3])) for _ in range(nb)] if draw(st.booleans()) else [1] * nb
    B = [['v'] * l for l in blens]
    use_join = draw(st.booleans())
    base = draw(st.sampled_from(['select *', 'select a1', 'select NR, a2 order by NR', 'update a1 = NR']))
    if base.startswith('update'):
        use_join = False    # more than one join match is an error for UPDATE by design
    return {'kind': 'warn-table', 'A': A, 'B': B if use_join else None, 'query': base + (' left join b on a1 == b1' if use_join else '')}


def fields_warning(table):
    info = {}
    for nr, r in enumerate(table, 1):
        if len(r) not in info:
            info[len(r)] = nr
    if len(info) < 2:
        return None
    (n1, r1), (n2, r2) = sorted(info.items(), key=lambda kv: kv[1])[:2]
    return 'record %d -> %d fields, record %d -> %d fields' % (r1, n1, r2, n2)


def check_warn_table(case, stats=None):
    r = engine.run_table(case['query'], copy.deepcopy(case['A']), copy.deepcopy(case['B']))
    expA = fields_warning(case['A'])
    expB = fields_warning(case['B']) if case['B'] is not None else None
    if stats is not None:
        stats.case(case, True, ['warn-table', 'warn-table-ragged' if (expA or expB) else 'warn-table-clean'], sample=dict(case, warnings=r['warnings']))
    if r['error'] is not None:
        raise Violation('warn-table-error', dict(case, error=r['error']))
    want = [w for w in (expA, expB) if w]
    got = r['warnings']
    if len(got) != len(want):
        raise Violation('field-count-warning-presence', dict(case, got=got, expected=want))
    for g, w in zip(got, want):
        if 'Number of fields in' not in g or 'is not consistent' not in g or not g.endswith(w):
            raise Violation('field-count-warning-records', dict(case, got=got, expected=want))


# ---------------------------------------------------------------------------------------------

def check_any(case, stats=None, scratch=None):
    k = case['kind']
    if k == 'poison':
        check_poison(case, stats, scratch)
    elif k == 'mistake':
        check_mistake(case, stats)
    elif k == 'io':
        check_io(case, stats, scratch)
    elif k == 'warn-csv':
        check_warn_csv(case, stats, scratch)
    else:
        check_warn_table(case, stats)


def _run(strategy, total, nshards, seed, tier, scratch, leg):
    stats = Stats()
    fails = run_hypothesis(strategy, lambda c: check_any(c, stats, scratch), max(1, total // nshards), seed, shrink_budget=300 if tier == 'quick' else 2000)
    for f in fails:
        f['leg'] = leg
    return {'stats': stats.export(), 'failures': fails}


def shard_poison(shard, nshards, tier, seed, scratch):
    return _run(st_poison(), 14000 if tier == 'quick' else 120000, nshards, seed, tier, scratch, 'poison')


def shard_text(shard, nshards, tier, seed, scratch):
    return _run(st.one_of(st_mistake(), st_mistake(), st_io()), 8000 if tier == 'quick' else 60000, nshards, seed, tier, scratch, 'text')


def shard_warn(shard, nshards, tier, seed, scratch):
    return _run(st.one_of(st_warn_csv(), st_warn_csv(), st_warn_table()), 14000 if tier == 'quick' else 120000, nshards, seed, tier, scratch, 'warnings')


def replay(case, clause=None):
    import tempfile, shutil
    d = tempfile.mkdtemp(prefix='vf_c14_')
    try:
        check_any(case, None, d)
    finally:
        shutil.rmtree(d, ignore_errors=True)


def probe_known(k):
    return False
