# C04 - JOIN pairs each A record with exactly its key-equal B records.
from __future__ import annotations

from hypothesis import strategies as st

from ..common import Stats, run_hypothesis, Violation
from .. import qgen, relcheck, refmodel

PROP = 'C04'
LEVEL = 'exploration'
RULE = ('Hypothesis-generated pairs of tables (empty, duplicate keys on both sides, ragged B, ragged A on non-key columns) x {JOIN, INNER JOIN, LEFT JOIN, '
        'LEFT OUTER JOIN, STRICT LEFT JOIN} x 1-3 key pairs (== / =, either side order, NR/aNR/a.NR with bNR/b.NR or a field) x downstream shape '
        '(select/where/star/unnest, order/distinct/top, aggregates with GROUP BY, UPDATE). Oracle = nested-loop reference expansion followed by the '
        'reference semantics of the downstream shape. Non-trivial = some A record with >=2 matches and some A record with none; distinct = case digests.'
        ' Later additions: zero-field join records, numeric look-alike key strings (7 / 7.0 / 07), key cells equal in value but not in type (2 / 2.0 / True), fewer NR keys and more multi-match joins (generator rebalanced).')
ASSUMPTIONS = ['join key fields exist in every record (a missing key field is an error by design, asserted in C14)',
               'STRICT LEFT failure is only demanded for queries that scan all of A']


def plan(tier):
    return {'stages': [('shard', 16)], 'timeout_s': 3000}


@st.composite
def st_agg_join(draw):
    base = draw(qgen.st_case_select(force_join=True, order=False, distinct=False, top=False, where_p=3, unnest=False, except_p=0, dup_heavy=True))
    a_names, b_names = base['a_names'], base['b_names']
    aw = max([len(r) for r in base['A']] + [0])
    bw = max([len(r) for r in base['B']] + [1])
    ctx = qgen.Ctx(draw, max(aw, 1), a_names, bw, b_names, has_join=True)
    a_min = min([len(r) for r in base['A']] + [aw])
    gkey = None
    items = []
    if a_min >= 1 and draw(st.booleans()):
        gkey = qgen.sfield(ctx, table='a', allow_past_end=False, idx=0)
        items.append({'k': 'expr', 'e': gkey})
    for _ in range(draw(st.integers(1, 3))):
        fn = draw(st.sampled_from(['COUNT', 'ARRAY_AGG', 'ANY_VALUE', 'MIN', 'MAX', 'SUM']))
        sp = draw(st.sampled_from(qgen.AGG_SPELLINGS[fn]))
        if fn == 'COUNT':
            items.append({'k': 'agg', 'fn': fn, 'sp': sp, 'star': True, 'startext': '*'})
        elif fn in ('ARRAY_AGG', 'ANY_VALUE'):
            items.append({'k': 'agg', 'fn': fn, 'sp': sp, 'e': qgen.field(ctx, table=draw(st.sampled_from(['a', 'b'])))})
        elif fn == 'SUM':
            items.append({'k': 'agg', 'fn': fn, 'sp': sp, 'e': qgen.mk(draw(st.sampled_from(['NR', 'bNR or 0', 'NR * 10 + (bNR or 0)', "len(b1 or '')"])), None, 'int')})
        else:
            items.append({'k': 'agg', 'fn': fn, 'sp': sp, 'e': qgen.mk(draw(st.sampled_from(['NR', '(bNR or 0)', "len(b1 or '')"])), None, 'int')})
    q = dict(base['q'])
    q['items'] = items
    q['group'] = [gkey] if gkey is not None else None
    base['q'] = q
    return base


@st.composite
def st_int_key_join(draw):
    """Typed (integer) key columns, so that field keys can be compared with NR / bNR: `a1 == bNR`, `NR == b1`."""
    ints = [0, 1, 2, 3, -1, -2, 4]
    A = [[draw(st.sampled_from(ints)), draw(st.sampled_from(['p', 'q', '']))] for _ in range(draw(st.integers(0, 5)))]
    B = [[draw(st.sampled_from(ints)), draw(st.sampled_from(['u', 'v']))] for _ in range(draw(st.integers(0, 4)))]
    form = draw(st.integers(0, 3))
    if form == 0:
        l, r = {'f': {'py': 'a1', 'js': 'a1', 'idx': 0}}, {'nr': draw(st.sampled_from(['bNR', 'b.NR']))}
    elif form == 1:
        l, r = {'nr': draw(st.sampled_from(['NR', 'aNR', 'a.NR']))}, {'f': {'py': 'b1', 'js': 'b1', 'idx': 0}}
    elif form == 2:
        l, r = {'f': {'py': 'a1', 'js': 'a1', 'idx': 0}}, {'f': {'py': 'b1', 'js': 'b1', 'idx': 0}}
    else:
        l, r = {'nr': 'NR'}, {'nr': 'bNR'}
    # sides may be swapped when the A side is a field (`bNR == a1`); `b1 == NR` / `bNR == NR` are not in the stated grammar
    pairs = [{'l': l, 'r': r, 'eq': draw(st.sampled_from(['==', '=', ' == '])), 'swap': ('f' in l) and draw(st.booleans())}]
    if draw(st.integers(0, 3)) == 0:
        pairs.append({'l': {'f': {'py': 'a2', 'js': 'a2', 'idx': 1}}, 'r': {'f': {'py': 'b2', 'js': 'b2', 'idx': 1}}, 'eq': '==', 'swap': False})
    join = {'kind': draw(st.sampled_from(qgen.JOIN_KINDS)), 'pairs': pairs, 'table': 'b', 'and': 'and'}
    items = [{'k': draw(st.sampled_from(['star', 'astar', 'bstar']))}]
    for v in draw(st.lists(st.sampled_from(['NR', 'bNR', 'a1', 'b1', 'b2', 'a2']), max_size=3)):
        nm = {'id': v} if v in ('NR', 'bNR') else {'f': [v[0], int(v[1]) - 1]}
        items.append({'k': 'expr', 'e': {'py': v, 'js': v, 'name': nm, 'ty': 'any'}})
    q = {'type': 'select', 'items': items, 'join': join}
    if draw(st.integers(0, 3)) == 0:
        q['where'] = qgen.mk('NR % 2', 'NR % 2', 'int')
    if draw(st.integers(0, 3)) == 0:
        q['order'] = {'keys': [qgen.mk('-NR', '-NR', 'int')], 'desc': draw(st.booleans()), 'asc_kw': False}
    return {'A': A, 'B': B, 'a_names': None, 'b_names': None, 'q': q}


@st.composite
def st_mixed_numeric_key_join(draw):
    """Key cells that are equal as values but differ in type (2 / 2.0 / True / 1): key equality is value equality, alone and inside a composite key."""
    nums = [0, 0.0, 1, 1.0, True, False, 2, 2.0, 3, 2.5]
    A = [[draw(st.sampled_from(nums)), draw(st.sampled_from(['p', 'q']))] for _ in range(draw(st.integers(1, 5)))]
    B = [[draw(st.sampled_from(nums)), draw(st.sampled_from(['p', 'q'])), 'j%d' % i] for i in range(draw(st.integers(1, 5)))]
    pairs = [{'l': {'f': {'py': 'a1', 'js': 'a1', 'idx': 0}}, 'r': {'f': {'py': 'b1', 'js': 'b1', 'idx': 0}}, 'eq': '==', 'swap': draw(st.booleans())}]
    k = draw(st.integers(0, 2))
    if k >= 1:
        pairs.append({'l': {'f': {'py': 'a2', 'js': 'a2', 'idx': 1}}, 'r': {'f': {'py': 'b2', 'js': 'b2', 'idx': 1}}, 'eq': '==', 'swap': False})
    if k == 2:
        pairs.insert(0, {'l': {'f': {'py': 'a1', 'js': 'a1', 'idx': 0}}, 'r': {'f': {'py': 'b1', 'js': 'b1', 'idx': 0}}, 'eq': '==', 'swap': False})
    join = {'kind': draw(st.sampled_from(['JOIN', 'INNER JOIN', 'LEFT JOIN', 'LEFT OUTER JOIN'])), 'pairs': pairs, 'table': 'b', 'and': 'and'}
    items = [{'k': 'expr', 'e': {'py': 'NR', 'js': 'NR', 'name': {'id': 'NR'}, 'ty': 'int'}}, {'k': 'expr', 'e': {'py': 'bNR', 'js': 'bNR', 'name': {'id': 'bNR'}, 'ty': 'int'}}, {'k': 'expr', 'e': {'py': 'b3', 'js': 'b3', 'name': {'f': ['b', 2]}, 'ty': 'any'}}]
    return {'A': A, 'B': B, 'a_names': None, 'b_names': None, 'q': {'type': 'select', 'items': items, 'join': join}}


def strategy():
    sel = qgen.st_case_select(force_join=True, order=True, distinct=True, top=True, where_p=3, except_p=0, dup_heavy=True, max_rows=6, max_width=3)
    plain = qgen.st_case_select(force_join=True, order=False, distinct=False, top=False, where_p=3, except_p=0, dup_heavy=True, max_rows=6, max_width=3)
    upd = qgen.st_case_update(join_p=1, multi_match=True)
    upd1 = qgen.st_case_update(join_p=1, multi_match=False)
    return st.one_of(plain, plain, sel, sel, st_agg_join(), upd, upd1, st_int_key_join(), st_mixed_numeric_key_join())


def check_case(case, stats=None):
    q = case['q']
    if q.get('join') is None:
        return   # update generator without a usable key column
    tup = relcheck.run_both(case, 'table')
    text, exp, exp_err, got, A, B = tup
    if stats is not None:
        cl = ['kind-' + q['join']['kind'].replace(' ', '_'), 'pairs-%d' % len(q['join']['pairs'])]
        if any('nr' in p['l'] or 'nr' in p['r'] for p in q['join']['pairs']):
            cl.append('NR-key')
        if any(p.get('swap') for p in q['join']['pairs']):
            cl.append('swapped-sides')
        shape = 'update' if q['type'] == 'update' else ('aggregate' if (q.get('group') is not None or any(it['k'] == 'agg' for it in q['items'])) else ('ordered/distinct/top' if (q.get('order') or q.get('distinct') or q.get('top')) else 'select'))
        cl.append('shape-' + shape)
        if exp_err is not None:
            cl.append('ref-says-error')
        mc = (exp or {}).get('match_counts') or []
        if not case['B']:
            cl.append('empty-B')
        if len(set(len(r) for r in case['B'])) > 1:
            cl.append('ragged-B')
        nt = any(c >= 2 for c in mc) and any(c == 0 for c in mc)
        if any(c >= 2 for c in mc):
            cl.append('multi-match')
        if any(c == 0 for c in mc):
            cl.append('unmatched')
        stats.case(case, nt, cl, sample={'query': text, 'A': case['A'], 'B': case['B'], 'out': got['out'][:6], 'error': got['error']})
    if exp_err is not None and q.get('top'):
        return
    relcheck.assert_rel(case, {'records'}, 'table', tup)


def shard(shard, nshards, tier, seed, scratch):
    total = 20000 if tier == 'quick' else 200000
    stats = Stats()
    failures = run_hypothesis(strategy(), lambda c: check_case(c, stats), max(1, total // nshards), seed, shrink_budget=300 if tier == 'quick' else 2000)
    failures += _large(shard, stats, 'join')
    return {'stats': stats.export(), 'failures': failures}


def replay(case, clause=None):
    if isinstance(case, dict) and case.get('kind') == 'large':
        f = _large(1, Stats(), case['which'])
        if f:
            raise Violation(f[0]['clause'], f[0]['detail'])
        return
    check_case(case)


def probe_known(k):
    return False


def _large(shard, stats, which):
    """Deterministic large tables (thousands of records) judged by the same reference."""
    from .. import largecases
    out = []
    if shard != 1:
        return out
    for case in largecases.large_cases(which):
        try:
            relcheck.assert_rel(case, {'records'}, 'table')
            stats.bump('large-case')
            stats.evaluations += 1
        except Violation as v:
            d = dict(v.detail or {})
            for k in ('got', 'expected', 'after', 'before'):
                if k in d:
                    d[k] = d[k][:3] if isinstance(d[k], list) else d[k]
            out.append({'clause': 'large-' + v.clause, 'detail': d, 'case': {'kind': 'large', 'which': which}})
            break
    return out
