# C02 - ORDER BY, DISTINCT and TOP/LIMIT compose as sort, then dedup, then truncate;
#       bounded streaming queries stop pulling input.
from __future__ import annotations

import copy

from hypothesis import strategies as st

from ..common import Stats, run_hypothesis, Violation
from .. import qgen, relcheck, refmodel, engine, jsdriver

PROP = 'C02'
LEVEL = 'exploration'
RULE = ('Hypothesis-generated SELECT cases over duplicate-heavy tables combining ORDER BY (1-2 keys, asc/desc) x {none, DISTINCT, DISTINCT COUNT} x '
        '{none, TOP n, LIMIT n; n in 0..|T|+1} x {WHERE, JOIN, UNNEST}. Oracles: (i) reference interpreter equality; (ii) metamorphic relations '
        'computed only from engine outputs (sorted = stable sort of the unsorted output by the engine-evaluated keys, DESC = reverse of ASC, '
        'DISTINCT = first occurrences, DISTINCT COUNT = multiplicities, TOP n = prefix, TOP == LIMIT); (iii) unbounded input iterators with a '
        'pull budget equal to the reference bound. Non-trivial = a tie in the sort key, or a duplicate output record, or 0 < n < size of the '
        'unbounded result (or, for the termination leg, a bound reached inside the endless tail); distinct = distinct case digests.'
        ' Later additions: a termination leg for rbql-js (endless iterator in the node driver), numeric sort keys around zero, tuple keys of different lengths, sort + dedup + truncate over 2600 records.')
ASSUMPTIONS = ['sort keys are totally ordered values of one type; DISTINCT records are hashable',
               'termination is decided by a bound on pulled records (BudgetExceeded), never by a clock',
               'the endless tail is constructed so that qualifying / distinct records keep arriving']


def plan(tier):
    return {'stages': [('shard', 12), ('shard_unbounded', 2), ('shard_unbounded_js', 2)], 'timeout_s': 3000}


def strip(q, *keys):
    q2 = copy.deepcopy(q)
    for k in keys:
        q2.pop(k, None)
    return q2


def run_q(case, q):
    c2 = dict(case)
    c2['q'] = q
    text = qgen.render(q)
    r = engine.run_table(text, copy.deepcopy(case['A']), copy.deepcopy(case.get('B')), case.get('a_names'), case.get('b_names'))
    return text, r


def check_meta(case, stats_classes):
    """Relations between the engine's own outputs; independent of the reference model."""
    q = case['q']
    t_full, r_full = run_q(case, q)
    if r_full['error'] is not None:
        return  # error agreement is asserted by the reference leg
    cur = strip(q, 'order', 'distinct', 'top')
    t_plain, r_plain = run_q(case, cur)
    if r_plain['error'] is not None:
        if q.get('top'):
            return  # the bounded query may legitimately stop before the record on which the unbounded one fails
        raise Violation('meta-plain-query-fails', {'query': t_plain, 'error': r_plain['error'], 'full_query': t_full})
    seq = r_plain['out']
    if q.get('order') is not None:
        nk = len(q['order']['keys'])
        qk = copy.deepcopy(cur)
        qk['items'] = qk['items'] + [{'k': 'expr', 'e': e} for e in q['order']['keys']]
        if qk.get('except'):
            return
        t_keys, r_keys = run_q(case, qk)
        if r_keys['error'] is not None or len(r_keys['out']) != len(seq):
            raise Violation('meta-key-query', {'query': t_keys, 'error': r_keys['error']})
        keyed = [(tuple(r[len(r) - nk:]), i) for i, r in enumerate(r_keys['out'])]
        order = sorted(range(len(seq)), key=lambda i: keyed[i])
        asc = [seq[i] for i in order]
        q_asc = strip(q, 'distinct', 'top')
        q_asc['order'] = dict(q['order'], desc=False)
        t_asc, r_asc = run_q(case, q_asc)
        if r_asc['error'] is not None or not _same(r_asc['out'], asc):
            raise Violation('meta-sort-not-stable-sort-of-plain', {'query': t_asc, 'got': r_asc['out'][:8], 'expected': asc[:8], 'error': r_asc['error']})
        q_desc = strip(q, 'distinct', 'top')
        q_desc['order'] = dict(q['order'], desc=True)
        t_desc, r_desc = run_q(case, q_desc)
        if r_desc['error'] is not None or not _same(r_desc['out'], asc[::-1]):
            raise Violation('meta-desc-not-reverse-of-asc', {'query': t_desc, 'got': r_desc['out'][:8], 'expected': asc[::-1][:8]})
        seq = asc[::-1] if q['order'].get('desc') else asc
        if len(set(k for k, _ in keyed)) < len(keyed):
            stats_classes.append('tie-in-key')
    if q.get('distinct'):
        uniq, counts = [], []
        for r in seq:
            for i, u in enumerate(uniq):
                if tuple(u) == tuple(r):
                    counts[i] += 1
                    break
            else:
                uniq.append(r)
                counts.append(1)
        if len(uniq) < len(seq):
            stats_classes.append('duplicate-records')
        exp = uniq if q['distinct'] == 'distinct' else [[c] + u for c, u in zip(counts, uniq)]
        t_d, r_d = run_q(case, strip(q, 'top'))
        if r_d['error'] is not None or not _same(r_d['out'], exp):
            raise Violation('meta-distinct', {'query': t_d, 'got': r_d['out'][:8], 'expected': exp[:8], 'error': r_d['error']})
        seq = exp
    if q.get('top'):
        n = q['top']['n']
        if 0 < n < len(seq):
            stats_classes.append('top-cuts')
        if not _same(r_full['out'], seq[:n]):
            raise Violation('meta-top-not-prefix', {'query': t_full, 'got': r_full['out'][:8], 'expected': seq[:n][:8]})
        q_other = copy.deepcopy(q)
        q_other['top'] = {'n': n, 'form': 'LIMIT' if q['top']['form'] == 'TOP' else 'TOP'}
        t_o, r_o = run_q(case, q_other)
        if r_o['error'] is not None or not _same(r_o['out'], r_full['out']):
            raise Violation('meta-top-vs-limit', {'query': t_o, 'got': r_o['out'][:8], 'expected': r_full['out'][:8]})
    elif not _same(r_full['out'], seq):
        raise Violation('meta-composition', {'query': t_full, 'got': r_full['out'][:8], 'expected': seq[:8]})


def _same(a, b):
    return refmodel.compare_records(a, b) is None


def check_case(case, stats=None):
    cl = []
    tup = relcheck.run_both(case, 'table')
    text, exp, exp_err, got, A, B = tup
    err = None
    try:
        if not (exp_err is not None and case['q'].get('top')):
            relcheck.assert_rel(case, {'records'}, 'table', tup)
        if exp_err is None:
            check_meta(case, cl)
    except Violation as v:
        err = v
    if stats is not None:
        q = case['q']
        for k in ('order', 'distinct', 'top', 'where', 'join'):
            if q.get(k):
                cl.append(k if k != 'distinct' else 'distinct-' + q['distinct'])
        if any(it['k'] == 'unnest' for it in q['items']):
            cl.append('unnest')
        if q.get('order') and q['order'].get('desc'):
            cl.append('desc')
        nt = any(c in cl for c in ('tie-in-key', 'duplicate-records', 'top-cuts'))
        stats.case(case, nt, cl, sample={'query': text, 'A': case['A'], 'B': case.get('B'), 'out': got['out'][:6], 'error': got['error']})
    if err is not None:
        raise err


def strategy():
    main = qgen.st_case_select(join_p=4, order=True, distinct=True, top=True, where_p=3, dup_heavy=True, except_p=0, max_rows=7, max_width=3)
    return st.one_of(main, main, main, main, qgen.st_case_typed())


# ---------------------------------------------------------------------------------------------
# termination on unbounded input

TAIL_POOL = ['a', 'b', '', 'ab', 'a b']


def tail_record(nr, width):
    return [str(nr)] + [TAIL_POOL[(nr * (j + 3)) % len(TAIL_POOL)] for j in range(width - 1)]


@st.composite
def st_unbounded(draw):
    width = draw(st.integers(1, 3))
    nprefix = draw(st.integers(0, 5))
    A = [draw(st.lists(st.sampled_from(TAIL_POOL), min_size=width, max_size=width)) for _ in range(nprefix)]
    join, B = None, None
    if draw(st.integers(0, 3)) == 0 and width >= 2:
        B = [[v, 'j' + str(i)] for i, v in enumerate(draw(st.lists(st.sampled_from(TAIL_POOL), min_size=1, max_size=4)))]
        kind = draw(st.sampled_from(['JOIN', 'INNER JOIN', 'LEFT JOIN']))
        join = {'kind': kind, 'pairs': [{'l': {'f': {'py': 'a2', 'js': 'a2', 'idx': 1}}, 'r': {'f': {'py': 'b1', 'js': 'b1', 'idx': 0}}, 'eq': '==', 'swap': False}], 'table': 'b', 'and': 'and'}
        if kind != 'LEFT JOIN' and not any(b[0] in TAIL_POOL for b in B):
            join = None
    ctx = qgen.Ctx(draw, width, None, 2 if join else 0, None, has_join=join is not None)
    items = [{'k': 'expr', 'e': {'py': 'a1', 'js': 'a1', 'name': {'f': ['a', 0]}, 'ty': 'cell'}}]   # a1 = str(NR) in the tail: records stay distinct
    for _ in range(draw(st.integers(0, 2))):
        k = draw(st.integers(0, 3))
        if k == 0:
            items.append({'k': 'star'})
        elif k == 1 and not any(it['k'] == 'unnest' for it in items):
            items.append({'k': 'unnest', 'e': qgen.mk("['u', a1]", "['u', a1]", 'list'), 'sp': 'UNNEST'})
        else:
            items.append({'k': 'expr', 'e': qgen.e_str(ctx, 1)})
    q = {'type': 'select', 'items': items, 'join': join}
    wk = draw(st.integers(0, 4))
    if wk == 1:
        q['where'] = qgen.mk('NR % 2', 'NR % 2', 'int')
    elif wk == 2:
        q['where'] = qgen.mk('NR % 3 == 0', 'NR % 3 == 0', 'bool')
    elif wk == 3:
        q['where'] = qgen.mk("len(a1 or '') > 0", "(a1 || '').length > 0", 'bool')
    elif wk == 4 and join is None:
        n = draw(st.integers(0, 9))
        q['where'] = qgen.mk("NR > %d" % n, "NR > %d" % n, 'bool')
    if draw(st.integers(0, 2)) == 0:
        q['distinct'] = 'distinct'
    q['top'] = {'n': draw(st.integers(0, 12)), 'form': draw(st.sampled_from(['TOP', 'LIMIT']))}
    return {'A': A, 'B': B, 'a_names': None, 'b_names': None, 'q': q, 'width': width}


def check_unbounded(case, stats=None):
    width = case['width']
    horizon = 400
    A_fin = list(case['A']) + [tail_record(nr, width) for nr in range(len(case['A']) + 1, horizon + 1)]
    fin_case = dict(case)
    fin_case['A'] = A_fin
    exp = refmodel.ref_select(fin_case)
    if exp['pulled'] >= horizon:
        # with an inner join whose keys never match the tail the bound is not reached: non-termination would be correct
        if stats is not None:
            stats.bump('unbounded-discarded-bound-not-reached')
        return
    text = qgen.render(case['q'])
    budget = exp['pulled']
    try:
        got = engine.run_query_objects(text, copy.deepcopy(case['A']), copy.deepcopy(case.get('B')), tail=lambda nr: tail_record(nr, width), budget=budget)
    except engine.BudgetExceeded:
        raise Violation('bounded-query-keeps-pulling', {'query': text, 'budget': budget, 'prefix': case['A']})
    if stats is not None:
        cl = ['unbounded', 'unbounded-top-%s' % ('0' if case['q']['top']['n'] == 0 else 'n')]
        if case['q'].get('distinct'):
            cl.append('unbounded-distinct')
        if case['q'].get('join'):
            cl.append('unbounded-join')
        stats.case(case, exp['pulled'] > len(case['A']), cl, sample={'query': text, 'prefix': case['A'], 'pulled': got['pulled'], 'bound': budget, 'out': got['out'][:4]})
    if got['error'] is not None:
        raise Violation('unbounded-error', {'query': text, 'error': got['error']})
    diff = refmodel.compare_records(got['out'], exp['out'])
    if diff is not None:
        raise Violation('unbounded-records', {'query': text, 'diff': diff, 'got': got['out'][:8]})
    if got['pulled'] > budget:
        raise Violation('bounded-query-pulled-too-much', {'query': text, 'pulled': got['pulled'], 'bound': budget})
    if got['trace'].count('finish') != 1:
        raise Violation('unbounded-finish', {'query': text, 'trace': got['trace'][-5:]})


def check_unbounded_js(case, drv, stats=None):
    """The termination clause on the JavaScript engine: rbql.query() over an iterator with an endless tail."""
    width = case['width']
    horizon = 400
    if not qgen.renderable(case['q'], 'js'):
        if stats is not None:
            stats.bump('js-unbounded-not-renderable')
        return
    fin_case = dict(case)
    fin_case['A'] = list(case['A']) + [tail_record(nr, width) for nr in range(len(case['A']) + 1, horizon + 1)]
    exp = refmodel.ref_select(fin_case)
    if exp['pulled'] >= horizon:
        if stats is not None:
            stats.bump('unbounded-discarded-bound-not-reached')
        return
    text = qgen.render(case['q'], 'js')
    budget = exp['pulled']
    got = drv.call({'cmd': 'query_endless', 'query': text, 'A': case['A'], 'B': case.get('B'), 'width': width, 'budget': budget})
    if stats is not None:
        cl = ['js-unbounded', 'js-unbounded-top-%s' % ('0' if case['q']['top']['n'] == 0 else 'n')]
        if case['q'].get('distinct'):
            cl.append('js-unbounded-distinct')
        if case['q'].get('join'):
            cl.append('js-unbounded-join')
        if any(it['k'] == 'unnest' for it in case['q']['items']):
            cl.append('js-unbounded-unnest')
        stats.case(case, exp['pulled'] > len(case['A']), cl, sample={'js_query': text, 'prefix': case['A'], 'pulled': got['pulled'], 'bound': budget, 'out': got['out'][:4]})
    if got['exceeded']:
        raise Violation('js-bounded-query-keeps-pulling', {'js_query': text, 'budget': budget, 'prefix': case['A']})
    if got['error'] is not None:
        raise Violation('js-unbounded-error', {'js_query': text, 'error': got['error']})
    diff = refmodel.compare_records(jsdriver.unclean(got['out']), exp['out'])
    if diff is not None:
        raise Violation('js-unbounded-records', {'js_query': text, 'diff': diff, 'got': got['out'][:8]})
    if got['finishes'] != 1:
        raise Violation('js-unbounded-finish', {'js_query': text, 'finishes': got['finishes']})


def shard_unbounded_js(shard, nshards, tier, seed, scratch):
    total = 1600 if tier == 'quick' else 20000
    stats = Stats()
    drv = jsdriver.Driver()
    try:
        failures = run_hypothesis(st_unbounded(), lambda c: check_unbounded_js(c, drv, stats), max(1, total // nshards), seed + 700, shrink_budget=200 if tier == 'quick' else 1000)
    finally:
        drv.close()
    for f in failures:
        f['leg'] = 'unbounded-js'
    return {'stats': stats.export(), 'failures': failures}


def shard(shard, nshards, tier, seed, scratch):
    total = 12000 if tier == 'quick' else 150000
    stats = Stats()
    failures = run_hypothesis(strategy(), lambda c: check_case(c, stats), max(1, total // nshards), seed, shrink_budget=300 if tier == 'quick' else 2000)
    failures += _large(shard, stats, 'order')
    for f in failures:
        f['leg'] = 'bounded'
    return {'stats': stats.export(), 'failures': failures}


def shard_unbounded(shard, nshards, tier, seed, scratch):
    total = 1200 if tier == 'quick' else 20000
    stats = Stats()
    failures = run_hypothesis(st_unbounded(), lambda c: check_unbounded(c, stats), max(1, total // nshards), seed + 500, shrink_budget=200 if tier == 'quick' else 1000)
    for f in failures:
        f['leg'] = 'unbounded'
    return {'stats': stats.export(), 'failures': failures}


def replay(case, clause=None):
    if isinstance(case, dict) and case.get('kind') == 'large':
        f = _large(1, Stats(), case['which'])
        if f:
            raise Violation(f[0]['clause'], f[0]['detail'])
        return
    if 'width' in case:
        check_unbounded(case)
        drv = jsdriver.Driver()
        try:
            check_unbounded_js(case, drv)
        finally:
            drv.close()
    else:
        check_case(case)


def probe_known(k):
    return False


def _large(shard, stats, which):
    """Deterministic large tables (thousands of records) judged by the same reference."""
    from .. import largecases
    out = []
    if shard != 1:
        return out
    for case in largecases.large_cases(which):
        try:
            relcheck.assert_rel(case, {'records'}, 'table')
            stats.bump('large-case')
            stats.evaluations += 1
        except Violation as v:
            d = dict(v.detail or {})
            for k in ('got', 'expected', 'after', 'before'):
                if k in d:
                    d[k] = d[k][:3] if isinstance(d[k], list) else d[k]
            out.append({'clause': 'large-' + v.clause, 'detail': d, 'case': {'kind': 'large', 'which': which}})
            break
    return out
