# Shared oracle step for the relational properties (C01-C05, C07): run one generated case
# through the engine and through the reference interpreter, and assert the requested clauses.
from __future__ import annotations

import copy
import re

from .common import Violation
from . import engine, qgen, refmodel

ERR_MAP = {'parsing': ('RbqlParsingError', 'SyntaxError'), 'runtime': ('RbqlRuntimeError',)}


def run_both(case, via='table', lang='py'):
    """Returns (text, exp|None, exp_err|None, got, A, B) - A/B are the lists handed to the engine."""
    text = qgen.render(case['q'], lang)
    A = copy.deepcopy(case['A'])
    B = copy.deepcopy(case.get('B'))
    try:
        exp, exp_err = refmodel.ref_run(case), None
    except refmodel.RefError as e:
        exp, exp_err = None, e
    if via == 'table':
        got = engine.run_table(text, A, B, case.get('a_names'), case.get('b_names'))
    else:
        got = engine.run_query_objects(text, A, B, case.get('a_names'), case.get('b_names'))
    return text, exp, exp_err, got, A, B


def assert_rel(case, clauses, via='table', text_exp_got=None):
    """clauses: subset of {'records', 'fresh', 'header', 'width', 'sources', 'error'}."""
    text, exp, exp_err, got, A, B = text_exp_got or run_both(case, via)
    ctx = {'query': text}
    if exp_err is not None:
        if 'records' in clauses or 'error' in clauses:
            if got['error'] is None:
                raise Violation('missing-error', dict(ctx, expected=str(exp_err), got=got['out'][:5]))
            if got['error']['cls'] not in ERR_MAP[exp_err.kind]:
                raise Violation('wrong-error-class', dict(ctx, expected=exp_err.kind, got=got['error']))
            if exp_err.kind == 'runtime' and exp_err.nr is not None:
                if not re.search(r'record %d(?![0-9])' % exp_err.nr, got['error']['msg']):
                    raise Violation('error-record-number', dict(ctx, expected_nr=exp_err.nr, got=got['error']))
        return text, exp, got
    if got['error'] is not None:
        if 'records' in clauses or 'header' in clauses or 'width' in clauses:
            raise Violation('unexpected-error:' + got['error']['cls'], dict(ctx, got=got['error'], expected=refmodel.describe_records(exp['out'])[:6]))
        return text, exp, got
    if 'records' in clauses:
        diff = refmodel.compare_records(got['out'], exp['out'])
        if diff is not None:
            raise Violation('records', dict(ctx, diff=diff, got=got['out'][:8], expected=refmodel.describe_records(exp['out'])[:8]))
    if 'fresh' in clauses:
        srcs = list(A) + list(B or [])
        ids = set(id(r) for r in srcs)
        seen = set()
        for o in got['out']:
            if id(o) in ids:
                raise Violation('output-aliases-input', ctx)
            if id(o) in seen:
                raise Violation('output-records-share-object', ctx)
            seen.add(id(o))
    if 'sources' in clauses:
        if A != case['A'] or (B or None) != (case.get('B') or None):
            raise Violation('source-modified', dict(ctx, after=A, before=case['A']))
    if 'width' in clauses and got['header'] is not None:
        for i, r in enumerate(got['out']):
            if len(r) != len(got['header']):
                raise Violation('header-width', dict(ctx, header=got['header'], record=r, index=i))
    if 'header' in clauses:
        if got['header'] != exp['header']:
            raise Violation('header-names', dict(ctx, got=got['header'], expected=exp['header']))
    return text, exp, got
