# C03 - Aggregates / GROUP BY: one exact result row per group, in key order.
from __future__ import annotations

from hypothesis import strategies as st

from ..common import Stats, run_hypothesis, Violation
from .. import qgen, relcheck, refmodel

PROP = 'C03'
LEVEL = 'exploration'
RULE = ('Hypothesis-generated tables (0-12 records) whose aggregate columns are homogeneous (numeric strings: ints, signed, padded, decimals, exponent '
        'form; Python ints incl. magnitudes above 2^53; Python floats) x select lists mixing the 9 aggregates in upper/lower/capitalised spelling, '
        'COUNT(*)/COUNT( * )/COUNT(1)/COUNT(x), expression arguments, group keys, constants, occasionally a non-constant plain column and the '
        'lower-case builtins with several arguments x {no GROUP BY, 1-2 keys} x WHERE (incl. reject-all) x TOP/LIMIT. Oracle = reference '
        'aggregation with exact Fraction arithmetic (integer data compared exactly incl. type; float data with tolerance '
        '1e-9*max(1,|ref|,scale)); ANY_VALUE accepts any member. Non-trivial = (>=2 groups or a group of >=3 records) and an aggregate other than COUNT.'
        ' Later additions: integer strings above 2^53, mixed int / float GROUP BY keys, single-iterable builtin forms (generator, map, range, set, dict view), exhaustive value sequences of length <= 3 over {-2..2} per group (strings / ints / floats), deterministic aggregate + builtin mixtures.')
ASSUMPTIONS = ['mixed-type aggregate columns are outside the stated domain', 'float aggregates are compared with the stated tolerance; exactness only for integer data']


def plan(tier):
    return {'stages': [('shard', 16)], 'timeout_s': 3000}


KEYS = ['x', 'y', 'z', 'x y', '']


def num_column(draw, n):
    kind = draw(st.sampled_from(['intstr', 'intstr', 'decstr', 'int', 'bigint', 'float', 'padstr', 'bigintstr']))
    if kind == 'bigintstr':
        # integer strings beyond 2^53 (64-bit ids, nanosecond timestamps): integer data are aggregated exactly
        return 'intstr', [str(draw(st.integers(2 ** 53, 2 ** 53 + 1000)) * draw(st.sampled_from([1, -1, 3, 189])) + draw(st.integers(0, 3))) for _ in range(n)]
    if kind == 'intstr':
        return kind, [str(draw(st.integers(-50, 50))) for _ in range(n)]
    if kind == 'padstr':
        return kind, [draw(st.sampled_from([' %d', '%d ', '+%d', '%d', ' %d '])) % draw(st.integers(0, 30)) for _ in range(n)]
    if kind == 'decstr':
        return kind, [draw(st.sampled_from(['%d', '%d.5', '%d.25', '%de1', '-%d.75', '%d.0', '.5%d'])) % draw(st.integers(0, 40)) for _ in range(n)]
    if kind == 'int':
        return kind, [draw(st.integers(-100, 100)) for _ in range(n)]
    if kind == 'bigint':
        return kind, [draw(st.integers(2 ** 53, 2 ** 53 + 1000)) * draw(st.sampled_from([1, -1, 3])) + draw(st.integers(0, 3)) for _ in range(n)]
    return kind, [draw(st.floats(min_value=-1e6, max_value=1e6, allow_nan=False, allow_infinity=False, width=32)) for _ in range(n)]


@st.composite
def st_case(draw):
    n = draw(st.integers(0, 12))
    nkeys = draw(st.integers(1, 3))
    keypool = KEYS[:nkeys + 1]
    col1 = [draw(st.sampled_from(keypool)) for _ in range(n)]
    k2, col2 = num_column(draw, n)
    k3, col3 = num_column(draw, n)
    col4 = [draw(st.sampled_from(['p', 'q'])) for _ in range(n)]
    # column 5: a function of the key (constant per group), sometimes None for some keys
    f5 = {k: draw(st.sampled_from(['c-' + k, None, 'same'])) for k in keypool}
    col5 = [f5[k] for k in col1]
    # column 6: numbers of mixed type (ints and floats, no two equal in value): a numeric group key orders numerically whatever the types
    col6 = [draw(st.sampled_from([1, 2, 3, 10, 2.5, 0.5, 7.25, -1, -0.5])) for _ in range(n)]
    A = [list(r) for r in zip(col1, col2, col3, col4, col5, col6)]
    hdr = draw(st.booleans())
    a_names = ['k', 'v', 'w', 'g', 'c', 'm'] if hdr else None
    numcols = {1: k2, 2: k3}

    def fld(i):
        sps = ['aN', 'a[N]'] + (['a.n', 'a["n"]'] if a_names else [])
        return qgen.field_expr('a', i, draw(st.sampled_from(sps)), a_names)

    def num_arg():
        i = draw(st.sampled_from([1, 2]))
        f = fld(i)
        kind = numcols[i]
        form = draw(st.integers(0, 5))
        if form <= 2:
            return f, kind
        if kind in ('intstr', 'padstr') and form == 3:
            return qgen.mk('int(%s) * 2' % f['py'], None, 'int'), 'int'
        if kind in ('intstr', 'padstr', 'decstr') and form == 4:
            return qgen.mk('float(%s)' % f['py'], None, 'float'), 'float'
        if kind in ('int', 'bigint') and form == 3:
            return qgen.mk('%s + NR' % f['py'], None, 'int'), 'int'
        if form == 5:
            return qgen.mk('NR', None, 'int'), 'int'
        if kind in ('intstr', 'padstr', 'int', 'bigint') and draw(st.integers(0, 2)) == 0:
            # the lower-case builtins keep their meaning inside an aggregate argument (several arguments / an iterable)
            x = 'int(%s)' % f['py']
            return qgen.mk(draw(st.sampled_from(['sum([%s, 1])', 'max(%s, 3)', 'min([%s, 5])', 'sum((%s, NR))', 'max([%s])',
                                                 # one argument that is an iterable of another kind: generator, map, range, set, dict view, iterator
                                                 'max(v for v in (%s, 1))', 'min(map(abs, [%s, 7]))', 'max(range(abs(%s) %% 5 + 1))', 'sum(x for x in [%s, 2])', 'min(iter([%s, 9]))',
                                                 'max({%s: 1}.keys())', 'max({%s, 0})', 'min(frozenset([%s, 4]))', 'max(sorted([%s, 3]))', 'min(v for v in [%s])'])) % x, None, 'int'), 'int'
        return f, kind

    group = None
    gk = draw(st.integers(0, 5))
    if gk == 4:
        group = [fld(5)]
    elif gk == 5:
        group = [fld(3), fld(5)]
    elif gk == 1:
        group = [fld(0)]
    elif gk == 2:
        group = [fld(0), fld(3)]
    elif gk == 3:
        group = [qgen.mk('len(%s)' % fld(0)['py'], None, 'int')]
    items = []
    nitems = draw(st.integers(1, 4))
    any_agg = False
    for _ in range(nitems):
        k = draw(st.integers(0, 13))
        it = None
        if k <= 7:
            fn = draw(st.sampled_from(qgen.AGG_FUNCS))
            sp = draw(st.sampled_from(qgen.AGG_SPELLINGS[fn]))
            if fn == 'COUNT':
                form = draw(st.integers(0, 3))
                if form == 0:
                    it = {'k': 'agg', 'fn': fn, 'sp': sp, 'star': True, 'startext': draw(st.sampled_from(['*', ' * ', '* ', ' *']))}
                elif form == 1:
                    it = {'k': 'agg', 'fn': fn, 'sp': sp, 'e': qgen.mk('1', '1', 'int')}
                else:
                    it = {'k': 'agg', 'fn': fn, 'sp': sp, 'e': fld(draw(st.integers(0, 5)))}
            elif fn in ('ARRAY_AGG', 'ANY_VALUE'):
                it = {'k': 'agg', 'fn': fn, 'sp': sp, 'e': fld(draw(st.integers(0, 5)))}
                if fn == 'ARRAY_AGG' and draw(st.integers(0, 3)) == 0:
                    it['e'] = fld(draw(st.integers(0, 3)))
                    it['post'] = draw(st.sampled_from([qgen.mk('lambda v: len(v)', None, 'fn'), qgen.mk("lambda v: '|'.join(str(x) for x in v)", None, 'fn'), qgen.mk('lambda v: v[::-1]', None, 'fn')]))
            else:
                arg, _kind = num_arg()
                it = {'k': 'agg', 'fn': fn, 'sp': sp, 'e': arg}
            any_agg = True
        elif k == 8 and group is not None:
            it = {'k': 'expr', 'e': group[0]}
        elif k == 9:
            it = {'k': 'expr', 'e': qgen.mk(draw(st.sampled_from(["'const'", '42', 'None', "'a' + 'b'"])), None, 'any')}
        elif k == 10:
            it = {'k': 'expr', 'e': fld(4)}          # constant per col1-group (possibly None): legal iff grouping refines col1
        elif k == 11:
            it = {'k': 'expr', 'e': fld(draw(st.sampled_from([0, 3])))}    # non-constant unless it is a group key
        elif k == 12:
            arg, kind = num_arg()
            if kind in ('int', 'bigint'):
                it = {'k': 'expr', 'e': qgen.mk(draw(st.sampled_from(['max(%s, 5)', 'min(%s, 0, 7)', 'sum([%s, 1])', 'max([%s, 2])', 'min((%s, 3), key=lambda t: -t)',
                                                                      'max(v for v in (%s, 5))', 'min(map(abs, [%s, 7]))', 'max(range(abs(%s) %% 5 + 1))', 'min(iter([%s, 9]))', 'max({%s, 0})'])) % arg['py'], None, 'int')}
            else:
                it = {'k': 'expr', 'e': qgen.mk("max(len(%s), 1)" % fld(0)['py'], None, 'int')}
        else:
            it = {'k': 'expr', 'e': fld(0)}
        if it.get('alias') is None and draw(st.integers(0, 5)) == 0:
            it['alias'] = draw(st.sampled_from(qgen.ALIAS_POOL))
            it['as_kw'] = draw(st.sampled_from(['AS', 'as']))
        items.append(it)
    q = {'type': 'select', 'items': items, 'group': group}
    wk = draw(st.integers(0, 5))
    if wk == 1:
        q['where'] = qgen.mk('NR % 2', None, 'int')
    elif wk == 2:
        q['where'] = qgen.mk("%s != 'x'" % fld(0)['py'], None, 'bool')
    elif wk == 3:
        q['where'] = qgen.mk('NR < 0', None, 'bool')
    elif wk == 4:
        q['where'] = qgen.mk("%s == 'p'" % fld(3)['py'], None, 'bool')
    if draw(st.integers(0, 3)) == 0:
        q['top'] = {'n': draw(st.integers(0, 4)), 'form': draw(st.sampled_from(['TOP', 'LIMIT']))}
    return {'A': A, 'B': None, 'a_names': a_names, 'b_names': None, 'q': q, 'coltypes': [k2, k3]}


def check_case(case, stats=None):
    tup = relcheck.run_both(case, 'table')
    text, exp, exp_err, got, A, B = tup
    if stats is not None:
        q = case['q']
        cl = list(case.get('coltypes', []))
        fns = [it['fn'] for it in q['items'] if it['k'] == 'agg']
        cl += ['agg-' + f for f in set(fns)]
        if q.get('group') is not None:
            cl.append('group-by-%d' % len(q['group']))
            if any(g['py'] in ('a6', 'a[6]', 'a.m', 'a["m"]', "a['m']") for g in q['group']):
                cl.append('group-by-mixed-int-float-key')
        if q.get('where') is not None:
            cl.append('where')
        if q.get('top'):
            cl.append('top')
        if exp_err is not None:
            cl.append('ref-says-error')
        if not fns and q.get('group') is None:
            cl.append('plain-row-query')
        if any(it['k'] == 'agg' and it['sp'] in ('min', 'max', 'sum') for it in q['items']):
            cl.append('lowercase-builtin-name-as-aggregate')
        nt = exp is not None and exp.get('agg') and (exp['n_groups'] >= 2 or exp['max_group'] >= 3) and any(f != 'COUNT' for f in fns)
        if exp is not None and exp.get('agg') and exp['n_groups'] == 0:
            cl.append('nothing-passes')
        stats.case(case, nt, cl, sample={'query': text, 'A': case['A'], 'out': got['out'][:4], 'error': got['error']})
    if exp_err is not None and case['q'].get('top'):
        return
    relcheck.assert_rel(case, {'records'}, 'table', tup)


def shard(shard, nshards, tier, seed, scratch):
    total = 20000 if tier == 'quick' else 200000
    stats = Stats()
    failures = run_hypothesis(st_case(), lambda c: check_case(c, stats), max(1, total // nshards), seed, shrink_budget=300 if tier == 'quick' else 2000)
    for which in ('agg', 'aggenum', 'aggenum-int', 'aggenum-float', 'agg-builtins'):
        failures += _large(shard, stats, which)
    return {'stats': stats.export(), 'failures': failures}


def replay(case, clause=None):
    if isinstance(case, dict) and case.get('kind') == 'large':
        f = _large(1, Stats(), case['which'])
        if f:
            raise Violation(f[0]['clause'], f[0]['detail'])
        return
    check_case(case)


def probe_known(k):
    return False


def _large(shard, stats, which):
    """Deterministic large tables (thousands of records) judged by the same reference."""
    from .. import largecases
    out = []
    if shard != 1:
        return out
    for case in largecases.large_cases(which):
        try:
            relcheck.assert_rel(case, {'records'}, 'table')
            stats.bump('large-case')
            stats.evaluations += 1
        except Violation as v:
            d = dict(v.detail or {})
            for k in ('got', 'expected', 'after', 'before'):
                if k in d:
                    d[k] = d[k][:3] if isinstance(d[k], list) else d[k]
            out.append({'clause': 'large-' + v.clause, 'detail': d, 'case': {'kind': 'large', 'which': which}})
            break
    return out
