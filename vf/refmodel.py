# Reference interpreter: a naive transcription of the statements of C01-C05 and C07.
# It consumes the structured query (never the query text) and shares no code with the engine.
# Expressions are Python texts evaluated by eval() in an environment this module binds itself.
from __future__ import annotations

import math
import re
from fractions import Fraction

MAXV = 16  # a1..a12 / b1..b12 are bound


class RefError(Exception):
    """The reference semantics say the query fails. kind: 'runtime' | 'parsing'; nr: record number or None."""

    def __init__(self, kind, nr=None, why=''):
        Exception.__init__(self, '%s error at %s: %s' % (kind, nr, why))
        self.kind = kind
        self.nr = nr
        self.why = why


def ref_like(text, pattern):
    """SQL LIKE by dynamic programming; no regular expressions."""
    n, m = len(text), len(pattern)
    # reach[j] = set of text positions i such that pattern[:j] matches text[:i]
    cur = [False] * (n + 1)
    cur[0] = True
    for j in range(m):
        pc = pattern[j]
        nxt = [False] * (n + 1)
        if pc == '%':
            seen = False
            for i in range(n + 1):
                seen = seen or cur[i]
                nxt[i] = seen
        elif pc == '_':
            for i in range(n):
                if cur[i]:
                    nxt[i + 1] = True
        else:
            for i in range(n):
                if cur[i] and text[i] == pc:
                    nxt[i + 1] = True
        cur = nxt
    return cur[n]


class RecView(object):
    """What `a` / `b` denote inside expressions: a[3], a["name"], a.name, a.NR."""

    def __init__(self, fields, names, nr):
        object.__setattr__(self, '_f', fields)
        object.__setattr__(self, '_n', names)
        object.__setattr__(self, '_nr', nr)

    def _get(self, idx):
        f = self._f
        if f is None or idx >= len(f):
            return None
        return f[idx]

    def __getitem__(self, k):
        if isinstance(k, int):
            return self._get(k - 1)
        return self._get(self._n.index(k))

    def __getattr__(self, name):
        if name == 'NR':
            return self._nr
        n = object.__getattribute__(self, '_n')
        if n is not None and name in n:
            return self._get(n.index(name))
        raise AttributeError(name)


def base_env():
    env = {'like': ref_like, 'LIKE': ref_like, 'math': math, 're': re}
    return env


def make_env(a_rec, nr, a_names, b_rec=None, bnr=None, b_names=None, has_join=False, extra=None):
    env = base_env()
    for i in range(max(MAXV, len(a_rec) + 1, len(a_names or ()) + 1)):       # wide tables: a17 ... a101 exist too
        env['a%d' % (i + 1)] = a_rec[i] if i < len(a_rec) else None
    env['a'] = RecView(a_rec, a_names, nr)
    env['NR'] = nr
    env['aNR'] = nr
    env['NF'] = len(a_rec)
    if has_join:
        for i in range(max(MAXV, len(b_rec or ()) + 1, len(b_names or ()) + 1)):
            env['b%d' % (i + 1)] = (b_rec[i] if (b_rec is not None and i < len(b_rec)) else None)
        env['b'] = RecView(b_rec, b_names, bnr)
        env['bNR'] = bnr
    if extra:
        env.update(extra)
    return env


def ev(expr, env, nr):
    try:
        return eval(expr['py'], env)
    except RefError:
        raise
    except Exception as e:
        raise RefError('runtime', nr, '%s: %s' % (type(e).__name__, e))


# ---------------------------------------------------------------------------------------------
# join expansion

def join_pairs(A, B, join, b_names=None):
    """Yields (nr, a_rec, [(bnr, b_rec)...]) lazily; raises RefError as the engine must."""
    if join is None:
        for nr, a in enumerate(A, 1):
            yield nr, a, [(None, None)]
        return
    kind = join['kind']
    # a missing key field in B fails before anything is read from A
    for bnr, b in enumerate(B, 1):
        for p in join['pairs']:
            if 'f' in p['r'] and p['r']['f']['idx'] >= len(b):
                raise RefError('runtime', None, 'no key field in B record %d' % bnr)
    width = max([len(b) for b in B] + [len(b_names) if b_names is not None else 0])
    for nr, a in enumerate(A, 1):
        akey = []
        for p in join['pairs']:
            if 'nr' in p['l']:
                akey.append(nr)
            else:
                i = p['l']['f']['idx']
                if i >= len(a):
                    raise RefError('runtime', nr, 'no key field a%d' % (i + 1))
                akey.append(a[i])
        matches = []
        for bnr, b in enumerate(B, 1):
            bkey = [bnr if 'nr' in p['r'] else b[p['r']['f']['idx']] for p in join['pairs']]
            if all(_key_eq(x, y) for x, y in zip(akey, bkey)):
                matches.append((bnr, b))
        if kind in ('JOIN', 'INNER JOIN'):
            yield nr, a, matches
        elif kind in ('LEFT JOIN', 'LEFT OUTER JOIN'):
            yield nr, a, (matches if matches else [(None, [None] * width)])
        elif kind == 'STRICT LEFT JOIN':
            if len(matches) != 1:
                raise RefError('runtime', nr, 'strict left join: %d matches' % len(matches))
            yield nr, a, matches
        else:
            raise ValueError(kind)


def _key_eq(x, y):
    # hash-map semantics: '1' != 1, None == None, NR (int) == bNR (int)
    return x == y


# ---------------------------------------------------------------------------------------------
# header naming rule (C07)

def ref_header(q, a_names, b_names):
    """Returns the expected output header (list) or None; raises RefError('parsing') for the
    documented restriction (star + alias on header-less input)."""
    if q['type'] == 'update':
        return list(a_names) if a_names is not None else None
    lead = ['col1'] if q.get('distinct') == 'count' else []   # the multiplicity column is an unnamed expression at position 1
    if q.get('except'):
        if a_names is None:
            return None
        drop = set(f['name']['f'][1] for f in q['except'])
        return lead + [n for i, n in enumerate(a_names) if i not in drop]
    items = q['items']
    any_alias = any(it.get('alias') for it in items)
    any_star = any(it['k'] in ('star', 'astar', 'bstar') for it in items)
    if a_names is None:
        if any_alias and any_star:
            raise RefError('parsing', None, 'star and alias without header')
        if not any_alias:
            return None
    an = list(a_names) if a_names is not None else []
    bn = list(b_names) if b_names is not None else []
    out = list(lead)
    for it in items:
        k = it['k']
        if k == 'star':
            out += an + bn
        elif k == 'astar':
            out += an
        elif k == 'bstar':
            out += bn
        elif it.get('alias'):
            out.append(it['alias'])
        elif k == 'expr' and it['e'].get('name') is not None:
            nm = it['e']['name']
            if 'id' in nm:
                out.append(nm['id'])
            else:
                t, i = nm['f']
                src = an if t == 'a' else bn
                if i < len(src):
                    out.append(src[i])
                else:
                    out.append('col%d' % (len(out) + 1))
        else:
            out.append('col%d' % (len(out) + 1))
    return out


# ---------------------------------------------------------------------------------------------
# aggregates

def to_number(v):
    if isinstance(v, str):
        try:
            return int(v)
        except ValueError:
            pass
        try:
            return float(v)
        except ValueError:
            raise RefError('runtime', None, 'not numeric: %r' % (v,))
    return v


def exact(x):
    if isinstance(x, bool):
        return Fraction(int(x))
    if isinstance(x, int):
        return Fraction(x)
    return Fraction(x)  # exact binary value of the float


class AggResult(object):
    """Expected value of an aggregate column, with the comparison it admits."""

    def __init__(self, fn, value=None, members=None, exact_int=False, scale=None):
        self.fn = fn
        self.value = value
        self.members = members
        self.exact_int = exact_int
        self.scale = scale

    def matches(self, got):
        fn = self.fn
        if fn == 'POST':
            return same_value(got, self.value)
        if fn == 'ANY_VALUE':
            return any(got is m or (type(got) is type(m) and got == m) for m in self.members)
        if fn in ('COUNT',):
            return type(got) is int and got == self.value
        if fn == 'ARRAY_AGG':
            return isinstance(got, list) and len(got) == len(self.value) and all(type(x) is type(y) and x == y for x, y in zip(got, self.value))
        if fn in ('MIN', 'MAX') and isinstance(self.value, str):
            return got == self.value
        if isinstance(got, bool) or not isinstance(got, (int, float)):
            return False
        if self.exact_int:
            return type(got) is int and Fraction(got) == self.value
        if isinstance(got, float) and (got != got or got in (float('inf'), float('-inf'))):
            return False
        tol = Fraction(1, 10 ** 9) * max(Fraction(1), abs(self.value), self.scale or Fraction(0))
        return abs(Fraction(got) - self.value) <= tol

    def describe(self):
        if self.fn == 'ANY_VALUE':
            return {'any_of': self.members}
        v = self.value
        if isinstance(v, Fraction):
            v = {'num': str(v.numerator), 'den': str(v.denominator), 'approx': float(v)}
        return {'fn': self.fn, 'value': v, 'exact_int': self.exact_int}


def is_int_like(v):
    if isinstance(v, bool):
        return False
    if isinstance(v, int):
        return True
    if isinstance(v, str):
        try:
            int(v)
            return True
        except ValueError:
            return False
    return False


def aggregate(fn, values, post=None, column_all_int=True):
    """column_all_int: every value this aggregate column sees (all groups) is an integer;
    only then is the integer *type* of MIN/MAX/SUM/MEDIAN part of the expectation (the engine
    decides int-vs-float parsing per column, not per group; the value is what the property fixes)."""
    if fn == 'COUNT':
        return AggResult(fn, len(values))
    if fn == 'ARRAY_AGG':
        v = list(values)
        if post is not None:
            return AggResult('POST', post(v))
        return AggResult(fn, v)
    if fn == 'ANY_VALUE':
        return AggResult(fn, members=list(values))
    if fn in ('MIN', 'MAX') and values and not isinstance(values[0], str):
        pass
    nums = [to_number(v) for v in values] if (values and isinstance(values[0], str)) else list(values)
    all_int = column_all_int and all(isinstance(x, int) and not isinstance(x, bool) for x in nums)
    ex = [exact(x) for x in nums]
    n = len(ex)
    if fn == 'MIN':
        return AggResult(fn, min(ex), exact_int=all_int)
    if fn == 'MAX':
        return AggResult(fn, max(ex), exact_int=all_int)
    if fn == 'SUM':
        return AggResult(fn, sum(ex, Fraction(0)), exact_int=all_int, scale=sum((abs(x) for x in ex), Fraction(0)))
    if fn == 'AVG':
        return AggResult(fn, sum(ex, Fraction(0)) / n, scale=sum((abs(x) for x in ex), Fraction(0)) / n)
    if fn == 'VARIANCE':
        mean = sum(ex, Fraction(0)) / n
        return AggResult(fn, sum(((x - mean) ** 2 for x in ex), Fraction(0)) / n, scale=sum((x * x for x in ex), Fraction(0)) / n)
    if fn == 'MEDIAN':
        s = sorted(ex)
        if n % 2:
            return AggResult(fn, s[n // 2], exact_int=all_int)
        lo, hi = s[n // 2 - 1], s[n // 2]
        return AggResult(fn, (lo + hi) / 2, exact_int=all_int and lo == hi)
    raise ValueError(fn)


# ---------------------------------------------------------------------------------------------
# SELECT

class Unbounded(Exception):
    pass


def ref_select(case, max_pull=None):
    """Returns dict(out=[records], header=..., pulled=<number of A records needed>).
    Aggregate columns come back as AggResult objects (compare with .matches)."""
    q = case['q']
    A, B = case['A'], case.get('B')
    a_names, b_names = case.get('a_names'), case.get('b_names')
    join = q.get('join')
    header = ref_header(q, a_names, b_names)   # parsing-level failure comes first
    items = q['items']
    is_agg = q.get('group') is not None or any(it['k'] == 'agg' for it in items)
    if is_agg and (q.get('order') is not None or q.get('distinct')):
        raise RefError('parsing', None, 'ORDER BY / DISTINCT in an aggregate query')
    if q.get('except') and join is not None:
        raise RefError('parsing', None, 'EXCEPT with JOIN')
    streaming = (not is_agg) and q.get('order') is None and q.get('distinct') != 'count'
    top = q['top']['n'] if q.get('top') else None

    rows = []     # (sort_key, nr_seq, record) for plain queries
    groups = {}   # key -> {'vals': [per item list], 'first': nr}
    group_order = []
    pulled = 0
    produced_unique = []
    stop = False
    n_pairs = n_pass = 0
    match_counts = []
    for nr, a, partners in join_pairs(A, B if join else None, join, b_names):
        pulled = nr
        match_counts.append(len([1 for bnr, _b in partners if bnr is not None]))
        for bnr, b in partners:
            env = make_env(a, nr, a_names, b, bnr, b_names, has_join=join is not None)
            n_pairs += 1
            if q.get('where') is not None and not ev(q['where'], env, nr):
                continue
            n_pass += 1
            if is_agg:
                key = tuple(ev(e, env, nr) for e in q['group']) if q.get('group') is not None else None
                vals = []
                for it in items:
                    if it['k'] == 'agg':
                        vals.append(1 if it.get('star') else ev(it['e'], env, nr))
                    elif it['k'] == 'expr':
                        vals.append(ev(it['e'], env, nr))
                    else:
                        raise RefError('runtime', nr, 'star/unnest inside an aggregate query is outside the reference')
                if key not in groups:
                    groups[key] = [[] for _ in items]
                    group_order.append(key)
                for slot, v in zip(groups[key], vals):
                    slot.append(v)
                continue
            if q.get('except'):
                drop = set(f['name']['f'][1] for f in q['except'])
                recs = [[v for i, v in enumerate(a) if i not in drop]]
            else:
                recs = [[]]
                for it in items:
                    k = it['k']
                    if k == 'star':
                        add = list(a) + (list(b) if join is not None else [])
                        recs = [r + add for r in recs]
                    elif k == 'astar':
                        recs = [r + list(a) for r in recs]
                    elif k == 'bstar':
                        recs = [r + list(b) for r in recs]
                    elif k == 'unnest':
                        lst = ev(it['e'], env, nr)
                        recs = [r + [v] for r in recs for v in lst]
                    else:
                        v = ev(it['e'], env, nr)
                        recs = [r + [v] for r in recs]
            skey = None
            if q.get('order') is not None:
                ks = [ev(e, env, nr) for e in q['order']['keys']]
                skey = ks[0] if len(ks) == 1 else tuple(ks)
            for r in recs:
                rows.append((skey, r))
                if streaming and top is not None:
                    # the engine may stop as soon as it knows the output is complete
                    if q.get('distinct') == 'distinct':
                        if not any(_rec_eq(r, u) for u in produced_unique):
                            produced_unique.append(r)
                        if len(produced_unique) > top:
                            stop = True
                    elif len(rows) > top:
                        stop = True
                if stop:
                    break
            if stop:
                break
        if stop:
            break

    if is_agg:
        out = []
        for key in sorted(groups.keys()) if q.get('group') is not None else list(groups.keys()):
            slots = groups[key]
            rec = []
            for idx, (it, vals) in enumerate(zip(items, slots)):
                if it['k'] == 'agg':
                    post = None
                    if it.get('post') is not None:
                        post = eval(it['post']['py'], base_env())
                    col_int = all(is_int_like(v) for g in groups.values() for v in g[idx])
                    rec.append(aggregate(it['fn'], vals, post, col_int))
                else:
                    first = vals[0]
                    for v in vals[1:]:
                        if not (v == first):
                            raise RefError('runtime', None, 'non-constant plain column in a group')
                    rec.append(first)
            out.append(rec)
        if top is not None:
            out = out[:top]
        return {'out': out, 'header': header, 'pulled': pulled, 'agg': True, 'n_pairs': n_pairs, 'n_pass': n_pass, 'match_counts': match_counts, 'n_groups': len(groups), 'max_group': max([len(g[0]) if g else 0 for g in groups.values()] + [0])}

    if q.get('order') is not None:
        seq = list(enumerate(rows))
        seq.sort(key=lambda t: (t[1][0], t[0]))           # (key, input position): ties in input order
        ordered = [t[1][1] for t in seq]
        if q['order'].get('desc'):
            ordered = ordered[::-1]
    else:
        ordered = [r for _k, r in rows]
    if q.get('distinct') == 'distinct':
        uniq = []
        for r in ordered:
            if not any(_rec_eq(r, u) for u in uniq):
                uniq.append(r)
        ordered = uniq
    elif q.get('distinct') == 'count':
        uniq, counts = [], []
        for r in ordered:
            for i, u in enumerate(uniq):
                if _rec_eq(r, u):
                    counts[i] += 1
                    break
            else:
                uniq.append(r)
                counts.append(1)
        ordered = [[c] + u for c, u in zip(counts, uniq)]
    if top is not None:
        ordered = ordered[:top]
    return {'out': ordered, 'header': header, 'pulled': pulled, 'agg': False, 'n_pairs': n_pairs, 'n_pass': n_pass, 'match_counts': match_counts, 'n_rows': len(rows), 'rows': rows}


def _rec_eq(r, u):
    # engine: tuple equality / hashing
    return tuple(r) == tuple(u)


# ---------------------------------------------------------------------------------------------
# UPDATE

def ref_update(case):
    q = case['q']
    A, B = case['A'], case.get('B')
    a_names, b_names = case.get('a_names'), case.get('b_names')
    join = q.get('join')
    header = list(a_names) if a_names is not None else None
    out = []
    nu = 0
    jp = None
    if join is not None:
        jp = dict(join)
        # UPDATE needs the raw match list: no null partner here, handled below
        jp['kind'] = 'JOIN'
    width = max([len(b) for b in (B or [])] + [len(b_names) if b_names is not None else 0])
    match_counts = []
    n_updated = 0
    for nr, a, partners in join_pairs(A, B if join else None, jp, b_names):
        up = list(a)
        match_counts.append(len([1 for bnr, _b in partners if bnr is not None]))
        if join is not None:
            if len(partners) > 1:
                raise RefError('runtime', nr, 'more than one match in UPDATE')
            if len(partners) == 0:
                if join['kind'] in ('LEFT JOIN', 'LEFT OUTER JOIN'):
                    partners = [(None, [None] * width)]
                else:
                    out.append(up)
                    continue
        bnr, b = partners[0]
        env = make_env(a, nr, a_names, b, bnr, b_names, has_join=join is not None, extra={'NU': nu})
        if q.get('where') is None or ev(q['where'], env, nr):
            nu += 1
            n_updated += 1
            env['NU'] = nu
            for asg in q['assign']:
                v = ev(asg['e'], env, nr)
                if asg['idx'] >= len(up):
                    raise RefError('runtime', nr, 'no field a%d' % (asg['idx'] + 1))
                up[asg['idx']] = v
        out.append(up)
    return {'out': out, 'header': header, 'match_counts': match_counts, 'n_updated': n_updated}


def ref_run(case):
    if case['q']['type'] == 'update':
        return ref_update(case)
    return ref_select(case)


def compare_records(got, exp):
    """Exact equality (values and types) of two record lists; aggregate cells via AggResult."""
    if len(got) != len(exp):
        return 'record count %d != %d' % (len(got), len(exp))
    for i, (g, e) in enumerate(zip(got, exp)):
        if len(g) != len(e):
            return 'record %d: width %d != %d' % (i + 1, len(g), len(e))
        for j, (gv, evv) in enumerate(zip(g, e)):
            if isinstance(evv, AggResult):
                if not evv.matches(gv):
                    return 'record %d col %d: got %r, expected %r' % (i + 1, j + 1, gv, evv.describe())
            elif not same_value(gv, evv):
                return 'record %d col %d: got %r, expected %r' % (i + 1, j + 1, gv, evv)
    return None


def same_value(g, e):
    if isinstance(e, (list, tuple)):
        return type(g) is type(e) and len(g) == len(e) and all(same_value(x, y) for x, y in zip(g, e))
    if isinstance(e, float) and e != e:
        return isinstance(g, float) and g != g
    return type(g) is type(e) and g == e


def describe_records(recs):
    return [[(c.describe() if isinstance(c, AggResult) else c) for c in r] for r in recs]
