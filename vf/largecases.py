# Deterministic large cases (thousands of records): record numbers with several digits, writer / sorter /
# hash-map behaviour beyond any small-table regime. Built as structured queries so that the reference
# interpreter judges them like any generated case.
from __future__ import annotations

from . import qgen


def _f(t, i):
    return qgen.field_expr(t, i, 'aN', None)


def table(n, ncols=3):
    return [['v%d' % (i % 7), str((i * 37) % 101), 'x' * (i % 23)][:ncols] for i in range(n)]


def large_cases(which):
    n = 2600
    A = table(n)
    out = []
    NR = {'py': 'NR', 'js': 'NR', 'name': {'id': 'NR'}, 'ty': 'int'}
    if which == 'select':
        q = {'type': 'select', 'items': [{'k': 'expr', 'e': _f('a', 0)}, {'k': 'expr', 'e': NR}, {'k': 'expr', 'e': qgen.mk("len(a3 or '')", "(a3 || '').length", 'int')}, {'k': 'star'}],
             'where': qgen.mk('NR % 3 != 0', 'NR % 3 != 0', 'bool'), 'join': None}
        out.append({'A': A, 'B': None, 'a_names': None, 'b_names': None, 'q': q})
        q2 = {'type': 'select', 'items': [{'k': 'expr', 'e': NR}, {'k': 'unnest', 'e': qgen.mk("[a1, a2]", "[a1, a2]", 'list'), 'sp': 'UNNEST'}], 'join': None,
              'where': qgen.mk('NR > 2590 or NR < 5 or NR == 1000', 'NR > 2590 || NR < 5 || NR == 1000', 'bool')}
        out.append({'A': A, 'B': None, 'a_names': ['k', 'v', 'pad'], 'b_names': None, 'q': q2})
    elif which == 'order':
        for desc in (False, True):
            q = {'type': 'select', 'items': [{'k': 'expr', 'e': _f('a', 0)}, {'k': 'expr', 'e': NR}], 'join': None,
                 'order': {'keys': [qgen.mk("(a1 or '')", "(a1 || '')", 'str'), qgen.mk('int(a2) % 5', 'parseInt(a2) % 5', 'int')], 'desc': desc, 'asc_kw': False},
                 'top': {'n': 1500, 'form': 'LIMIT' if desc else 'TOP'}}
            out.append({'A': A, 'B': None, 'a_names': None, 'b_names': None, 'q': q})
        q = {'type': 'select', 'items': [{'k': 'expr', 'e': _f('a', 0)}, {'k': 'expr', 'e': qgen.mk('int(a2) % 11', 'parseInt(a2) % 11', 'int')}], 'join': None, 'distinct': 'count'}
        out.append({'A': A, 'B': None, 'a_names': None, 'b_names': None, 'q': q})
        q = {'type': 'select', 'items': [{'k': 'expr', 'e': _f('a', 1)}], 'join': None, 'distinct': 'distinct', 'top': {'n': 90, 'form': 'TOP'}}
        out.append({'A': A, 'B': None, 'a_names': None, 'b_names': None, 'q': q})
        # a small bound over thousands of records with large tie groups, both directions, without DISTINCT
        for desc in (False, True):
            for n_top in (3, 7):
                q = {'type': 'select', 'items': [{'k': 'expr', 'e': NR}, {'k': 'expr', 'e': _f('a', 0)}], 'join': None,
                     'order': {'keys': [qgen.mk('int(a2) % 5', 'parseInt(a2) % 5', 'int')], 'desc': desc, 'asc_kw': False}, 'top': {'n': n_top, 'form': 'TOP' if desc else 'LIMIT'}}
                out.append({'A': A, 'B': None, 'a_names': None, 'b_names': None, 'q': q})
        # one huge tie group that ends long before the input does (its members are all early arrivals)
        for desc in (False, True):
            for n_top in (3, 40):
                q = {'type': 'select', 'items': [{'k': 'expr', 'e': NR}], 'join': None,
                     'order': {'keys': [qgen.mk('int(NR <= 1200)', '(NR <= 1200 ? 1 : 0)', 'int')], 'desc': desc, 'asc_kw': False}, 'top': {'n': n_top, 'form': 'LIMIT'}}
                out.append({'A': A, 'B': None, 'a_names': None, 'b_names': None, 'q': q})
                q = {'type': 'select', 'items': [{'k': 'expr', 'e': NR}], 'join': None,
                     'order': {'keys': [qgen.mk('int(NR > 1400)', '(NR > 1400 ? 1 : 0)', 'int')], 'desc': desc, 'asc_kw': False}, 'top': {'n': n_top, 'form': 'TOP'}}
                out.append({'A': A, 'B': None, 'a_names': None, 'b_names': None, 'q': q})
        # sort, then dedup, then truncate - with thousands of duplicates in front of the bound (all three features together)
        for desc in (False, True):
            for distinct in ('distinct', 'count'):
                for n_top in (3, 5):
                    q = {'type': 'select', 'items': [{'k': 'expr', 'e': _f('a', 0)}], 'join': None, 'distinct': distinct,
                         'order': {'keys': [qgen.mk("(a1 or '')", "(a1 || '')", 'str')], 'desc': desc, 'asc_kw': False}, 'top': {'n': n_top, 'form': 'LIMIT' if desc else 'TOP'}}
                    out.append({'A': A, 'B': None, 'a_names': None, 'b_names': None, 'q': q})
        q = {'type': 'select', 'items': [{'k': 'expr', 'e': _f('a', 1)}, {'k': 'expr', 'e': _f('a', 0)}], 'join': None, 'distinct': 'distinct',
             'order': {'keys': [qgen.mk('int(a2) % 13', 'parseInt(a2) % 13', 'int'), qgen.mk("(a1 or '')", "(a1 || '')", 'str')], 'desc': False, 'asc_kw': False}, 'top': {'n': 40, 'form': 'TOP'},
             'where': qgen.mk('NR % 2', 'NR % 2', 'int')}
        out.append({'A': A, 'B': None, 'a_names': None, 'b_names': None, 'q': q})
    elif which == 'agg':
        q = {'type': 'select', 'items': [{'k': 'expr', 'e': _f('a', 0)}, {'k': 'agg', 'fn': 'COUNT', 'sp': 'COUNT', 'star': True, 'startext': '*'}, {'k': 'agg', 'fn': 'SUM', 'sp': 'SUM', 'e': _f('a', 1)},
                                         {'k': 'agg', 'fn': 'MEDIAN', 'sp': 'median', 'e': _f('a', 1)}, {'k': 'agg', 'fn': 'VARIANCE', 'sp': 'VARIANCE', 'e': qgen.mk('int(a2) * 1000', None, 'int')},
                                         {'k': 'agg', 'fn': 'MAX', 'sp': 'max', 'e': qgen.mk("len(a3 or '')", None, 'int')}],
             'group': [_f('a', 0)], 'join': None}
        out.append({'A': A, 'B': None, 'a_names': None, 'b_names': None, 'q': q})
        q = {'type': 'select', 'items': [{'k': 'agg', 'fn': 'COUNT', 'sp': 'count', 'star': True, 'startext': '*'}, {'k': 'agg', 'fn': 'AVG', 'sp': 'AVG', 'e': _f('a', 1)}], 'group': [qgen.mk('NR % 400', None, 'int')], 'join': None, 'top': {'n': 399, 'form': 'LIMIT'}}
        out.append({'A': A, 'B': None, 'a_names': None, 'b_names': None, 'q': q})
    elif which.startswith('aggenum'):
        # every value sequence of length 1..3 over {-2, -1, 0, 1, 2} is one group (155 groups): extrema / sums / medians that pass through 0,
        # repeated values, sign changes - as numeric strings, as ints, or as floats
        import itertools
        conv = {'aggenum': str, 'aggenum-int': int, 'aggenum-float': lambda v: v + 0.5}[which]
        rows, g = [], 0
        for n in (1, 2, 3):
            for seq in itertools.product([-2, -1, 0, 1, 2], repeat=n):
                g += 1
                rows += [['g%03d' % g, conv(v)] for v in seq]
        items = [{'k': 'expr', 'e': _f('a', 0)}] + [{'k': 'agg', 'fn': fn, 'sp': fn, 'e': _f('a', 1)} for fn in ('MIN', 'MAX', 'SUM', 'AVG', 'VARIANCE', 'MEDIAN')]
        items.append({'k': 'agg', 'fn': 'COUNT', 'sp': 'COUNT', 'star': True, 'startext': '*'})
        out.append({'A': rows, 'B': None, 'a_names': None, 'b_names': None, 'q': {'type': 'select', 'items': items, 'group': [_f('a', 0)], 'join': None}})
        # the same groups interleaved (records of different groups alternate)
        inter = sorted(rows, key=lambda r: (rows.index(r) % 3, r[0])) if False else [r for k in range(3) for i, r in enumerate(rows) if i % 3 == k]
        out.append({'A': inter, 'B': None, 'a_names': None, 'b_names': None, 'q': {'type': 'select', 'items': items, 'group': [_f('a', 0)], 'join': None}})
    elif which == 'agg-builtins':
        # lower-case min / max / sum used both as aggregate (scalar argument) and as the Python builtin (one iterable argument) in one query
        rows = [['g1', '3', '4'], ['g1', '10', '1'], ['g2', '5', '5'], ['g1', '2', '8'], ['g2', '7', '0']]
        A1 = lambda fn, sp, py: {'k': 'agg', 'fn': fn, 'sp': sp, 'e': qgen.mk(py, None, 'any')}
        key = _f('a', 0)
        for name in ('sum', 'max', 'min'):
            fn = name.upper()
            builtin = '%s([int(a2), int(a3)])' % name
            variants = [
                [{'k': 'expr', 'e': key}, A1('ARRAY_AGG', 'ARRAY_AGG', builtin), A1(fn, name, 'int(a2)')],
                [{'k': 'expr', 'e': key}, A1(fn, name, 'int(a2)'), A1('ARRAY_AGG', 'ARRAY_AGG', builtin)],
                [{'k': 'expr', 'e': key}, A1(fn, name, builtin), A1(fn, name, 'int(a3)'), A1('ANY_VALUE', 'ANY_VALUE', '%s((int(a2), 0))' % name)],
            ]
            for items in variants:
                out.append({'A': rows, 'B': None, 'a_names': None, 'b_names': None, 'q': {'type': 'select', 'items': items, 'group': [key], 'join': None}})
            out.append({'A': rows, 'B': None, 'a_names': None, 'b_names': None, 'q': {'type': 'select', 'items': [A1(fn, name, 'int(a2)'), {'k': 'agg', 'fn': 'COUNT', 'sp': 'COUNT', 'star': True, 'startext': '*'}], 'group': None, 'join': None,
                                                                                     'where': qgen.mk('%s([int(a2), int(a3)]) > 6' % name, None, 'bool')}})
            out.append({'A': rows, 'B': None, 'a_names': None, 'b_names': None, 'q': {'type': 'select', 'items': [A1(fn, name, 'int(a2)'), {'k': 'agg', 'fn': 'COUNT', 'sp': 'count', 'star': True, 'startext': '*'}],
                                                                                     'group': [qgen.mk('%s([len(a1), 0])' % name, None, 'int')], 'join': None}})
    elif which == 'wide-header':
        # tables with 25 / 101 named columns: every index spelling of a two- and three-digit column (a10, a20, a[10], a100, a101, b10 ...)
        for width in (25, 101):
            names = ['n%d' % (i + 1) for i in range(width)]
            rows = [['r%dc%d' % (r, c + 1) for c in range(width)] for r in range(3)]
            idxs = [0, 8, 9, 10, 18, 19, 20, 24] + ([98, 99, 100] if width > 100 else [])
            items = [{'k': 'expr', 'e': qgen.field_expr('a', i, sp, names)} for i in idxs for sp in ('aN', 'a[N]')]
            out.append({'A': rows, 'B': None, 'a_names': names, 'b_names': None, 'q': {'type': 'select', 'items': items, 'join': None}})
            bnames = ['m%d' % (i + 1) for i in range(width)]
            jitems = [{'k': 'expr', 'e': qgen.field_expr('b', i, 'aN', bnames)} for i in idxs] + [{'k': 'expr', 'e': qgen.field_expr('a', 9, 'aN', names)}, {'k': 'expr', 'e': qgen.field_expr('a', 9, 'a.n', names)}]
            join = {'kind': 'JOIN', 'pairs': [{'l': {'f': {'py': 'a10', 'js': 'a10', 'idx': 9}}, 'r': {'f': {'py': 'b10', 'js': 'b10', 'idx': 9}}, 'eq': '==', 'swap': False}], 'table': 'b', 'and': 'and'}
            out.append({'A': rows, 'B': [list(r) for r in rows], 'a_names': names, 'b_names': bnames, 'q': {'type': 'select', 'items': jitems, 'join': join}})
    elif which == 'join':
        A2 = table(400)
        B = [['v%d' % (i % 40), 'b%d' % i] for i in range(900)]
        for kind in ('JOIN', 'LEFT JOIN'):
            q = {'type': 'select', 'items': [{'k': 'expr', 'e': NR}, {'k': 'expr', 'e': {'py': 'bNR', 'js': 'bNR', 'name': {'id': 'bNR'}, 'ty': 'int'}}, {'k': 'expr', 'e': _f('b', 1)}],
                 'join': {'kind': kind, 'pairs': [{'l': {'f': {'py': 'a1', 'js': 'a1', 'idx': 0}}, 'r': {'f': {'py': 'b1', 'js': 'b1', 'idx': 0}}, 'eq': '==', 'swap': False}], 'table': 'b', 'and': 'and'},
                 'where': qgen.mk('NR % 50 == 0', 'NR % 50 == 0', 'bool')}
            out.append({'A': A2, 'B': B, 'a_names': None, 'b_names': None, 'q': q})
        q = {'type': 'select', 'items': [{'k': 'expr', 'e': NR}, {'k': 'expr', 'e': _f('b', 1)}],
             'join': {'kind': 'STRICT LEFT JOIN', 'pairs': [{'l': {'nr': 'NR'}, 'r': {'nr': 'bNR'}, 'eq': '==', 'swap': False}], 'table': 'b', 'and': 'and'}}
        out.append({'A': table(900), 'B': B, 'a_names': None, 'b_names': None, 'q': q})
    elif which == 'join-huge':
        Bh = [['v%d' % (i % 9), 'b%d' % i] for i in range(130001)]
        q = {'type': 'select', 'items': [{'k': 'expr', 'e': NR}, {'k': 'agg', 'fn': 'COUNT', 'sp': 'COUNT', 'star': True, 'startext': '*'}], 'group': [NR],
             'join': {'kind': 'JOIN', 'pairs': [{'l': {'f': {'py': 'a1', 'js': 'a1', 'idx': 0}}, 'r': {'f': {'py': 'b1', 'js': 'b1', 'idx': 0}}, 'eq': '==', 'swap': False}], 'table': 'b', 'and': 'and'}}
        out.append({'A': table(3), 'B': Bh, 'a_names': None, 'b_names': None, 'q': q})
    elif which == 'update':
        q = {'type': 'update', 'assign': [{'target': _f('a', 1), 'idx': 1, 'e': {'py': 'NU', 'js': 'NU', 'name': None, 'ty': 'int'}, 'eq': '='},
                                          {'target': _f('a', 0), 'idx': 0, 'e': qgen.mk("(a3 or '') + str(NR)", "(a3 || '') + String(NR)", 'str'), 'eq': '='}],
             'where': qgen.mk('NR % 2', 'NR % 2', 'int'), 'join': None, 'set_kw': True}
        out.append({'A': A, 'B': None, 'a_names': None, 'b_names': None, 'q': q})
    return out
