# C13 - Same query, same data => same result through every front-end and backend.
from __future__ import annotations

import copy
import os
import re
import sqlite3
import subprocess
import sys

from hypothesis import strategies as st

from ..common import Stats, run_hypothesis, Violation, REPO
from .. import engine, qgen, refcsv
from . import c14

from rbql import rbql_sqlite, rbql_engine  # noqa: E402

PROP = 'C13'
LEVEL = 'exploration'
RULE = ('Hypothesis-generated type-agnostic queries (string operations, comparisons, NR/NF arithmetic, SELECT / WHERE / ORDER BY / DISTINCT / TOP / JOIN / UPDATE / EXCEPT, '
        'aliases; plus failing queries: text-level mistakes and a runtime error at record k) over rectangular tables of strings with a header, run through 9 entry '
        'points: query_table, query with harness iterator/writer/registry objects, query_csv, `python -m rbql` file->file, stdin->stdout, --out-format csv and tsv, '
        'query_pandas_dataframe, and SqliteRecordIterator + query_sqlite_to_csv; the join table is named per back-end. Oracle: all entry points yield the same table '
        '(str(v) per cell; CSV outputs parsed with the reference reader) and the same header; for the command line: exit 0 <=> the library succeeds, on success stderr '
        'holds only "Warning:" lines and stdout parses to exactly the table, on failure exit != 0 and stderr has an "Error [<type>]:" line with the type the library '
        'exception maps to, stdout empty. Non-trivial = a query with >= 2 clauses and >= 2 output records (or a failing query); distinct = case digests.'
        ' Later additions: the optional `csv` mode word and the sqlite command line, dataframe index variants, input dialects sharing the delimiter of a named --out-format, comment lines in both files with comment_prefix, whole-table aggregates under a bound, fixed scenarios (bounded inner joins with unmatched leading records).')
ASSUMPTIONS = ['None outputs and numeric coercions are kept out (fields past the end of a record are not referenced)', 'header mode throughout (sqlite always has column names)',
               'cells contain no line breaks / tabs (tsv = simple policy cannot represent them: C10)']

CELLS = ['a', 'b', 'ab', 'a b', 'B', '10', '9', 'x,y', 'k', 'zz', 'A;B', 'q"r', "it's", 'é', '%']
ERR_TYPES = {'RbqlRuntimeError': 'query execution', 'RbqlParsingError': 'query parsing', 'RbqlIOHandlingError': 'IO handling', 'SyntaxError': 'syntax error'}


def plan(tier):
    return {'stages': [('shard', 16)], 'timeout_s': 3000}


DIALECTS = [(',', 'quoted', 'utf-8'), (',', 'quoted', 'utf-8'), (';', 'quoted', 'utf-8'), ('\t', 'simple', 'utf-8'), ('|', 'simple', 'latin-1'), (',', 'quoted_rfc', 'utf-8'), (' ', 'whitespace', 'utf-8'), ('::', 'quoted', 'utf-8'), ('§', 'quoted', 'utf-8'), ('→', 'simple', 'utf-8'), ('\t', 'simple', 'utf-8'), ('#', 'quoted', 'utf-8'),
            # the delimiter of a named --out-format together with another policy (the output dialect is fixed by the format name, not by the input policy)
            ('\t', 'quoted', 'utf-8'), (',', 'simple', 'utf-8'), ('\t', 'quoted_rfc', 'utf-8')]


def cell_ok(c, dialect):
    dlm, policy, enc = dialect
    if policy == 'simple':
        return dlm not in c
    if policy == 'whitespace':
        return c != '' and ' ' not in c
    return True


@st.composite
def st_scenario(draw):
    sc = draw(st_scenario_base())
    dialect = draw(st.sampled_from(DIALECTS))
    ok = all(cell_ok(c, dialect) for t in (sc['A'], sc.get('B') or []) for r in t for c in r)
    sc['dialect'] = list(dialect) if ok else list(DIALECTS[0])
    return sc


@st.composite
def st_scenario_base(draw):
    kind = draw(st.integers(0, 9))
    aw = draw(st.integers(1, 4))
    n = draw(st.integers(1, 6))
    A = [[draw(st.sampled_from(CELLS)) for _ in range(aw)] for _ in range(n)]
    a_names = qgen.st_names(draw, aw)
    join, B, b_names, bw = None, None, None, 0
    if draw(st.integers(0, 2)) == 0:
        bw = draw(st.integers(1, 3))
        B = [[draw(st.sampled_from(CELLS[:6])) for _ in range(bw)] for _ in range(draw(st.integers(1, 4)))]
        b_names = ['j_' + x for x in qgen.st_names(draw, bw)]
        join = qgen.st_join(draw, aw, bw, a_names, b_names, kinds=['JOIN', 'INNER JOIN'], max_pairs=2, allow_nr=True)   # LEFT JOIN would put None (pandas: NaN) into the output
        for pr in join['pairs']:
            for side in ('l', 'r'):
                if pr[side].get('nr') in ('a.NR', 'b.NR'):
                    pr[side]['nr'] = 'NR' if side == 'l' else 'bNR'      # a header is in force here
        join['table'] = 'b'
    ctx = qgen.Ctx(draw, aw, a_names, bw, b_names, has_join=join is not None)
    ctx.no_past_end = True
    if kind == 0 and join is None:
        # failing: text-level mistake
        name, qtext = draw(st.sampled_from([m for m in c14.MISTAKES if 'join' not in m[0] and m[0] not in ('star-alias-no-header', 'unknown-attr', 'unknown-except', 'unknown-update-field')]))
        return {'A': A, 'B': None, 'a_names': a_names, 'b_names': None, 'text': qtext, 'failing': name}
    if kind == 1:
        k = draw(st.integers(1, n))
        return {'A': A, 'B': None, 'a_names': a_names, 'b_names': None, 'text': "select a1, (int('x') if NR == %d else NR)" % k, 'failing': 'runtime-at-%d' % k}
    if kind == 3:
        # aggregates (COUNT / MIN / MAX over strings via len, ARRAY_AGG-free: list cells print differently per front-end)
        key = qgen.field(ctx, table='a')
        items = [{'k': 'expr', 'e': key}, {'k': 'agg', 'fn': 'COUNT', 'sp': draw(st.sampled_from(['COUNT', 'count'])), 'star': True, 'startext': '*'}]
        if draw(st.booleans()):
            f = qgen.sfield(ctx, table='a')
            items.append({'k': 'agg', 'fn': 'MAX', 'sp': draw(st.sampled_from(['MAX', 'Max'])), 'e': qgen.mk('len(%s)' % f['py'], None, 'int')})
        q = {'type': 'select', 'items': items, 'group': [key], 'join': None}
        if draw(st.integers(0, 2)) == 0:
            # aggregates over the whole table (no GROUP BY, no plain column): one record in total, whatever bound is given
            q = {'type': 'select', 'items': items[1:], 'group': None, 'join': None}
            if len(A) >= 2 and draw(st.integers(0, 3)) != 3:
                # a bound below the number of input records, nothing else in the query
                q['top'] = {'n': draw(st.integers(1, len(A) - 1)), 'form': draw(st.sampled_from(['TOP', 'LIMIT']))}
                return {'A': A, 'B': None, 'a_names': a_names, 'b_names': None, 'q': q}
        if draw(st.booleans()):
            q['top'] = {'n': draw(st.integers(0, 3)), 'form': draw(st.sampled_from(['TOP', 'LIMIT']))}
        if draw(st.integers(0, 2)) == 0:
            q['where'] = qgen.e_truthy(ctx)
        return {'A': A, 'B': None, 'a_names': a_names, 'b_names': None, 'q': q}
    if kind == 5 and draw(st.integers(0, 3)) == 0:
        # a large result (several thousand output lines): buffered writers must flush everything exactly once
        nbig = draw(st.sampled_from([1023, 1024, 1025, 2500, 5000]))
        Abig = [['r%d' % i, CELLS[i % len(CELLS)]] for i in range(nbig)]
        qb = {'type': 'select', 'items': [{'k': 'star'}, {'k': 'expr', 'e': {'py': 'NR', 'js': 'NR', 'name': {'id': 'NR'}, 'ty': 'int'}}], 'join': None}
        if draw(st.booleans()):
            qb['order'] = {'keys': [qgen.mk('-NR', '-NR', 'int')], 'desc': False, 'asc_kw': False}
        return {'A': Abig, 'B': None, 'a_names': ['id', 'val'], 'b_names': None, 'q': qb}
    if kind == 4:
        # a lone star item over a join in which records are emitted several times, with cells that need quoting
        A2 = [[draw(st.sampled_from(['k1', 'k2'])), draw(st.sampled_from(['p,q', 'q"r', 'plain', 'x y']))] for _ in range(draw(st.integers(1, 4)))]
        B2 = [[draw(st.sampled_from(['k1', 'k2'])), draw(st.sampled_from(['u,v', '"w"', 'z']))] for _ in range(draw(st.integers(1, 4)))]
        an, bn = ['key', 'val'], ['j_key', 'j_val']
        j = {'kind': draw(st.sampled_from(['JOIN', 'INNER JOIN'])), 'pairs': [{'l': {'f': {'py': 'a1', 'js': 'a1', 'idx': 0}}, 'r': {'f': {'py': 'b1', 'js': 'b1', 'idx': 0}}, 'eq': '==', 'swap': False}], 'table': 'b', 'and': 'and'}
        q = {'type': 'select', 'items': [{'k': draw(st.sampled_from(['astar', 'bstar', 'star']))}], 'join': j}
        if draw(st.integers(0, 2)) == 0:
            q['order'] = {'keys': [qgen.mk("(a2 or '')", None, 'str')], 'desc': draw(st.booleans()), 'asc_kw': False}
        return {'A': A2, 'B': B2, 'a_names': an, 'b_names': bn, 'q': q}
    if kind == 2:
        upd = draw(qgen.st_case_update(join_p=0))
        # rebuild on our rectangular table
        assign = []
        for _ in range(draw(st.integers(1, 2))):
            idx = draw(st.integers(0, aw - 1))
            sps = ['aN', 'a[N]', 'a["n"]'] + (['a.n'] if qgen.is_attr_name(a_names[idx]) else [])
            assign.append({'target': qgen.field_expr('a', idx, draw(st.sampled_from(sps)), a_names), 'idx': idx, 'e': qgen.e_str(ctx), 'eq': '='})
        q = {'type': 'update', 'assign': assign, 'join': None, 'set_kw': draw(st.booleans())}
        if draw(st.booleans()):
            q['where'] = qgen.e_bool(ctx)
        return {'A': A, 'B': None, 'a_names': a_names, 'b_names': None, 'q': q}
    items = []
    for _ in range(draw(st.integers(1, 4))):
        k2 = draw(st.integers(0, 8))
        if k2 == 0:
            items.append({'k': 'star'})
        elif k2 == 1:
            items.append({'k': 'astar'})
        elif k2 == 2 and join is not None:
            items.append({'k': 'bstar'})
        else:
            e = draw(st.sampled_from(['field', 'str', 'int', 'bool', 'field']))
            ex = {'field': qgen.field, 'str': qgen.e_str, 'int': qgen.e_int, 'bool': qgen.e_bool}[e](ctx)
            it = {'k': 'expr', 'e': ex}
            if draw(st.integers(0, 3)) == 0:
                it['alias'] = draw(st.sampled_from(qgen.ALIAS_POOL))
                it['as_kw'] = draw(st.sampled_from(['AS', 'as']))
            items.append(it)
    if join is not None and draw(st.booleans()):
        items.append({'k': 'expr', 'e': {'py': 'bNR', 'js': 'bNR', 'name': {'id': 'bNR'}, 'ty': 'int'}})
        items.append({'k': 'expr', 'e': {'py': 'NR', 'js': 'NR', 'name': {'id': 'NR'}, 'ty': 'int'}})
    q = {'type': 'select', 'items': items, 'join': join}
    if join is None and draw(st.integers(0, 6)) == 0:
        q['items'] = [{'k': 'star'}]
        idx = draw(st.integers(0, aw - 1))
        q['except'] = [qgen.field_expr('a', idx, draw(st.sampled_from(['aN', 'a["n"]'])), a_names)]
    if draw(st.booleans()):
        q['where'] = qgen.e_truthy(ctx)
    if draw(st.booleans()):
        q['order'] = {'keys': [qgen.e_key(ctx)], 'desc': draw(st.booleans()), 'asc_kw': False}
    dk = draw(st.integers(0, 5))
    if dk == 0:
        q['distinct'] = 'distinct'
    elif dk == 1:
        q['distinct'] = 'count'
    if draw(st.integers(0, 2)) == 0:
        q['top'] = {'n': draw(st.integers(0, n + 1)), 'form': draw(st.sampled_from(['TOP', 'LIMIT']))}
    return {'A': A, 'B': B, 'a_names': a_names, 'b_names': b_names, 'q': q}


def norm_table(recs):
    return [[('' if c is None else str(c)) for c in r] for r in recs]


def cli(args, scratch, stdin_data=None):
    env = dict(os.environ, PYTHONPATH=os.path.join(REPO, 'rbql-py'), PYTHONWARNINGS='ignore', PYTHONIOENCODING='utf-8')
    p = subprocess.run([sys.executable, '-m', 'rbql'] + args, capture_output=True, env=env, cwd=scratch, input=stdin_data)
    return p.returncode, p.stdout, p.stderr.decode('utf-8', errors='replace')


def check_scenario(sc, scratch, stats=None):
    rbql = engine.rbql
    A, B, a_names, b_names = sc['A'], sc.get('B'), sc['a_names'], sc.get('b_names')
    text = sc['text'] if 'text' in sc else qgen.render(sc['q'])
    results = {}
    # 1. query_table
    r = engine.run_table(text, copy.deepcopy(A), copy.deepcopy(B), a_names, b_names)
    results['query_table'] = ('error', r['error']['cls']) if r['error'] else (norm_table(r['out']), r['header'])
    # 2. query with harness objects
    r2 = engine.run_query_objects(text, copy.deepcopy(A), copy.deepcopy(B), a_names, b_names)
    results['query-objects'] = ('error', r2['error']['cls']) if r2['error'] else (norm_table(r2['out']), r2['header'])
    # files
    dlm, policy, enc = sc.get('dialect') or [',', 'quoted', 'utf-8']
    if enc == 'latin-1' and not text.isascii():
        dlm, policy, enc = ',', 'quoted', 'utf-8'     # the CSV front-end rejects non-ASCII query text with latin-1 by design
    default_dialect = (dlm, policy, enc) == (',', 'quoted', 'utf-8')
    src, jn = os.path.join(scratch, 'c13_in.csv'), os.path.join(scratch, 'c13_join.csv')
    # a quarter of the scenarios: both files carry comment lines (before the header, between and after the records) and are read with comment_prefix='#'
    comment = '#' if len(text) % 4 == 1 else None

    def with_comments(body):
        if comment is None:
            return body
        lines = body.split('\n')
        out = ['#leading comment' + dlm + 'x']
        for i, l in enumerate(lines):
            out.append(l)
            if i % 2 == 0 and l != '':
                out.append('#' + l)          # a comment line that would parse as a record (and match as a join key) if it were not skipped
        return '\n'.join(out)
    with open(src, 'w', encoding=enc, newline='') as f:
        f.write(with_comments(refcsv.write_table([a_names] + A, dlm, policy)))
    if B is not None:
        with open(jn, 'w', encoding=enc, newline='') as f:
            f.write(with_comments(refcsv.write_table([b_names] + B, dlm, policy)))
    ftext = text.replace(' b on ', ' %s on ' % jn).replace(' B on ', ' %s on ' % jn) if B is not None else text

    def parse(path_or_text, pdlm, ppolicy, is_text=False, penc=None):
        t = path_or_text if is_text else open(path_or_text, 'rb').read().decode(penc or enc)
        recs = refcsv.read_table(t, pdlm, ppolicy)['records']
        return (recs[1:], recs[0] if recs else None)
    # 3. query_csv
    dst = os.path.join(scratch, 'c13_out.csv')
    warnings = []
    try:
        rbql.query_csv(ftext, src, dlm, policy, dst, ',', 'quoted', enc, warnings, True, comment)
        results['query_csv'] = parse(dst, ',', 'quoted')
    except Exception as e:
        results['query_csv'] = ('error', engine.err_info(e)['cls'])
    # 4-7. command line
    sel = len(text) % 4
    if not default_dialect and sel < 2:
        sel += 2       # `--out-format input` would write the input dialect, which cannot represent every output cell
    if sel == 3 and ('\t' in text or '\\t' in text):
        sel = 2        # a TAB produced by the query cannot be represented in tsv (simple policy) output
    cli_runs = []
    if sel == 0:
        cli_runs.append(('cli-file', ['--input', src, '--output', dst], None, ',', 'quoted'))
    elif sel == 1:
        cli_runs.append(('cli-stdin-stdout', [], open(src, 'rb').read(), ',', 'quoted'))
    elif sel == 2:
        cli_runs.append(('cli-out-csv', ['--input', src, '--out-format', 'csv'], None, ',', 'quoted'))
    else:
        cli_runs.append(('cli-out-tsv', ['--input', src, '--out-format', 'tsv'], None, '\t', 'simple'))
    lib_err = results['query_csv'][1] if results['query_csv'][0] == 'error' else None
    for name, extra, stdin_data, odlm, opol in cli_runs:
        if os.path.exists(dst):
            os.remove(dst)
        cli_dlm = dlm
        if dlm == '\t':
            cli_dlm = ['\t', 'TAB', '\\t'][len(text) % 3]      # the documented spellings of a tab on the command line
        mode_word = ['csv'] if len(text) % 3 == 1 else []     # `rbql [csv] ...`: the documented optional mode word
        if mode_word:
            name += '+mode-word'
        rc, out, err = cli(mode_word + ['--delim', cli_dlm, '--policy', policy, '--encoding', enc, '--with-headers', '--query', ftext] + (['--comment-prefix', comment] if comment else []) + extra, scratch, stdin_data)
        out = out.decode(enc, errors='replace')
        ctx = {'query': ftext, 'entry': name, 'exit': rc, 'stderr': err[-400:], 'stdout': out[:300]}
        if lib_err is None:
            if rc != 0:
                raise Violation('cli-fails-where-library-succeeds', ctx)
            bad = [l for l in err.splitlines() if l.strip() and not l.startswith('Warning: ')]
            if bad:
                raise Violation('cli-stderr-not-only-warnings', ctx)
            if 'Warning:' in out or 'Error [' in out:
                raise Violation('cli-diagnostics-on-stdout', ctx)
            if '--output' in extra:
                if out != '':
                    raise Violation('cli-stdout-not-empty-with-output-file', ctx)
                results[name] = parse(dst, odlm, opol)
            else:
                results[name] = parse(out, odlm, opol, is_text=True)
        else:
            if rc == 0:
                raise Violation('cli-exit-0-on-failure', ctx)
            m = re.search(r'^Error \[([^\]]+)\]: ', err, re.M)
            if not m:
                raise Violation('cli-no-error-line', ctx)
            if m.group(1) != ERR_TYPES.get(lib_err, 'unexpected'):
                raise Violation('cli-error-type', dict(ctx, expected=ERR_TYPES.get(lib_err), library=lib_err))
            if out.strip() != '' and '--output' not in extra and 'Error' in out:
                raise Violation('cli-error-on-stdout', ctx)
            results[name] = ('error', lib_err)
    # 8. pandas
    import pandas
    df = pandas.DataFrame(copy.deepcopy(A), columns=a_names)
    dfb = pandas.DataFrame(copy.deepcopy(B), columns=b_names) if B is not None else None
    # the row index of a dataframe is not data: the same records under a named / permuted / string index give the same result
    variant = (len(A) + len(text)) % 4
    for d in (df, dfb):
        if d is None:
            continue
        if variant == 1:
            d.index.name = 'idx'
        elif variant == 2:
            d.index = pandas.Index(['r%d' % (len(d) - i) for i in range(len(d))], name='kind')
        elif variant == 3:
            d.index = pandas.Index(list(range(len(d), 0, -1)))
    try:
        res = rbql.query_pandas_dataframe(text, df, [], dfb)
        hdr = None if isinstance(res.columns, pandas.RangeIndex) else [str(c) for c in res.columns]
        results['pandas'] = (norm_table(res.values.tolist()), hdr)
    except Exception as e:
        results['pandas'] = ('error', engine.err_info(e)['cls'])
    # 9. sqlite
    dbp = os.path.join(scratch, 'c13.sqlite')
    if os.path.exists(dbp):
        os.remove(dbp)
    con = sqlite3.connect(dbp)
    con.execute('create table t (%s)' % ', '.join('"%s" text' % n for n in a_names))
    con.executemany('insert into t values (%s)' % ','.join('?' * len(a_names)), A)
    if B is not None:
        con.execute('create table b (%s)' % ', '.join('"%s" text' % n for n in b_names))
        con.executemany('insert into b values (%s)' % ','.join('?' * len(b_names)), B)
    con.commit()
    sdst = os.path.join(scratch, 'c13_sql.csv')
    try:
        rbql_sqlite.query_sqlite_to_csv(text.replace(' B on ', ' b on '), con, 't', sdst, ',', 'quoted', 'utf-8', [])
        results['sqlite'] = parse(sdst, ',', 'quoted', penc='utf-8')
    except Exception as e:
        results['sqlite'] = ('error', engine.err_info(e)['cls'])
    finally:
        con.close()
    # 10. the command line in sqlite mode (`python -m rbql sqlite DB --input TABLE ...`), for a third of the scenarios
    if len(text) % 3 == 2:
        sq_text = text.replace(' B on ', ' b on ')
        to_file = len(text) % 2 == 0
        sq_out = os.path.join(scratch, 'c13_sqlcli.csv')
        if os.path.exists(sq_out):
            os.remove(sq_out)
        rc, out, err = cli(['sqlite', dbp, '--input', 't', '--query', sq_text] + (['--output', sq_out] if to_file else []), scratch)
        out = out.decode('utf-8', errors='replace')
        ctx = {'query': sq_text, 'entry': 'cli-sqlite', 'exit': rc, 'stderr': err[-400:], 'stdout': out[:300]}
        lib = results['sqlite']
        if lib[0] != 'error':
            if rc != 0:
                raise Violation('cli-fails-where-library-succeeds', ctx)
            if [l for l in err.splitlines() if l.strip() and not l.startswith('Warning: ')]:
                raise Violation('cli-stderr-not-only-warnings', ctx)
            if to_file and out != '':
                raise Violation('cli-stdout-not-empty-with-output-file', ctx)
            results['cli-sqlite'] = parse(sq_out, ',', 'quoted', penc='utf-8') if to_file else parse(out, ',', 'quoted', is_text=True)
        else:
            if rc == 0:
                raise Violation('cli-exit-0-on-failure', ctx)
            m = re.search(r'^Error \[([^\]]+)\]: ', err, re.M)
            if not m:
                raise Violation('cli-no-error-line', ctx)
            if m.group(1) != ERR_TYPES.get(lib[1], 'unexpected'):
                raise Violation('cli-error-type', dict(ctx, expected=ERR_TYPES.get(lib[1]), library=lib[1]))
            results['cli-sqlite'] = ('error', lib[1])
    base = results['query_table']
    if stats is not None:
        q = sc.get('q', {})
        nclauses = sum(1 for k in ('where', 'order', 'join', 'distinct', 'top', 'except') if q.get(k)) + 1
        nt = ('failing' in sc) or (nclauses >= 2 and base[0] != 'error' and len(base[0]) >= 2)
        cl = ['entry-' + k for k in results] + (['failing'] if 'failing' in sc else []) + (['join'] if B is not None else []) + (['update'] if q.get('type') == 'update' else [])
        stats.case(sc, nt, cl, sample={'query': text, 'a_names': a_names, 'A': A, 'result': base if base[0] == 'error' else {'records': base[0][:4], 'header': base[1]}})
    for name, res in results.items():
        if name == 'query_table':
            continue
        a, b = base, res
        # a zero-column result is an empty line in CSV form: compare only what CSV can show
        if a != b:
            if a[0] != 'error' and b[0] != 'error' and a[1] in (None, []) and (not a[0] or all(len(r) == 0 for r in a[0])):
                continue
            raise Violation('front-ends-disagree', {'query': text, 'entry': name, 'query_table': a if a[0] == 'error' else {'records': a[0][:6], 'header': a[1]},
                                                    'other': b if b[0] == 'error' else {'records': b[0][:6], 'header': b[1]}, 'a_names': a_names, 'A': A, 'B': B})


def fixed_scenarios():
    """Deterministic scenarios: bounds combined with an inner join whose first input records have no partner, whole-table aggregates under a bound,
    DISTINCT over values that CSV writers rewrite - the places where a back-end specific shortcut would cut the input too early."""
    F = lambda t, i: qgen.field_expr(t, i, 'aN', None)
    A = [['x', '1'], ['y', '2'], ['k1', '3'], ['k2', '4'], ['k1', '5'], ['k2', '6']]
    B = [['k1', 'p'], ['k2', 'q']]
    an, bn = ['id', 'n'], ['j_id', 'j_v']
    J = lambda kind: {'kind': kind, 'pairs': [{'l': {'f': {'py': 'a1', 'js': 'a1', 'idx': 0}}, 'r': {'f': {'py': 'b1', 'js': 'b1', 'idx': 0}}, 'eq': '==', 'swap': False}], 'table': 'b', 'and': 'and'}
    out = []
    for kind in ('JOIN', 'INNER JOIN'):
        for n in (1, 2, 3):
            for form in ('TOP', 'LIMIT'):
                out.append({'A': A, 'B': B, 'a_names': an, 'b_names': bn, 'q': {'type': 'select', 'items': [{'k': 'expr', 'e': F('a', 0)}, {'k': 'expr', 'e': F('b', 1)}], 'join': J(kind), 'top': {'n': n, 'form': form}}})
    for n in (1, 2, 5):
        out.append({'A': A, 'B': None, 'a_names': an, 'b_names': None, 'q': {'type': 'select', 'items': [{'k': 'agg', 'fn': 'COUNT', 'sp': 'COUNT', 'star': True, 'startext': '*'}], 'group': None, 'join': None, 'top': {'n': n, 'form': 'LIMIT'}}})
        out.append({'A': A, 'B': None, 'a_names': an, 'b_names': None, 'q': {'type': 'select', 'items': [{'k': 'expr', 'e': F('a', 0)}], 'join': None, 'distinct': 'distinct', 'top': {'n': n, 'form': 'TOP'}}})
    out.append({'A': A, 'B': None, 'a_names': an, 'b_names': None, 'q': {'type': 'select', 'items': [{'k': 'expr', 'e': qgen.mk('len(a1)', None, 'int')}], 'join': None, 'distinct': 'distinct'}})
    return out


def shard(shard, nshards, tier, seed, scratch):
    total = 1200 if tier == 'quick' else 12000
    stats = Stats()
    failures = run_hypothesis(st_scenario(), lambda c: check_scenario(c, scratch, stats), max(1, total // nshards), seed, shrink_budget=40 if tier == 'quick' else 400)
    if not failures:
        for i, sc in enumerate(fixed_scenarios()):
            if i % nshards != shard:
                continue
            try:
                check_scenario(sc, scratch, stats)
            except Violation as v:
                failures.append({'clause': 'fixed-' + v.clause, 'detail': v.detail, 'case': sc})
                break
    return {'stats': stats.export(), 'failures': failures}


def replay(case, clause=None):
    import tempfile, shutil
    d = tempfile.mkdtemp(prefix='vf_c13_')
    try:
        check_scenario(case, d)
    finally:
        shutil.rmtree(d, ignore_errors=True)


def probe_known(k):
    return False
