# C01 - SELECT/WHERE yields exactly the projected matching records, in input order.
from __future__ import annotations

from ..common import Stats, run_hypothesis, Violation
from .. import qgen, relcheck, refmodel

PROP = 'C01'
LEVEL = 'exploration'
RULE = ('Hypothesis-generated (table, join table, header, SELECT query) cases from the select/where grammar (fields in 5 spellings, '
        'expressions, literals, *, a.*, b.*, * EXCEPT, one UNNEST, optional WHERE and JOIN); oracle = reference interpreter '
        '(exact record-list equality incl. value types) + freshness of output lists. Non-trivial = >=2 input records and '
        '(WHERE keeps some and drops some pairs, or a star/EXCEPT/UNNEST item, or a ragged table); distinct = distinct case digests.'
        ' Later additions: f-string items whose variables occur only inside the literal, raw TAB / double-space literals, `UNNEST (x)` with a gap, dict literals, keyword-argument calls in select items, blanks around the commas of the select list, join tables with zero-field records, 2600-record deterministic cases.')
ASSUMPTIONS = ['expression semantics are shared with the oracle (both sides call Python eval on the same expression text)',
               'expressions are generated to be evaluable on their table (no failing evaluations; those are C14)',
               'EXCEPT only as `* EXCEPT cols` (the documented form)']


def plan(tier):
    return {'stages': [('shard', 16)], 'timeout_s': 3000}


def classify(case, exp):
    q = case['q']
    cl = []
    items = q['items']
    kinds = set(it['k'] for it in items)
    if q.get('join'):
        cl.append('join')
        if exp is not None and any(c >= 2 for c in exp.get('match_counts', [])):
            cl.append('join-multi-match')
    if q.get('where') is not None:
        cl.append('where')
    if kinds & {'star', 'astar', 'bstar'}:
        cl.append('star')
    if q.get('except'):
        cl.append('except')
    if 'unnest' in kinds:
        cl.append('unnest')
        if q.get('join') and exp is not None and any(c >= 2 for c in exp.get('match_counts', [])):
            cl.append('unnest+multi-match-join')
    if case.get('a_names') is not None:
        cl.append('header')
    ragged = len(set(len(r) for r in case['A'])) > 1
    if ragged:
        cl.append('ragged')
    if not case['A']:
        cl.append('empty-table')
    mixed = exp is not None and 0 < exp.get('n_pass', 0) < exp.get('n_pairs', 0)
    if mixed:
        cl.append('where-mixed')
    nontrivial = len(case['A']) >= 2 and (mixed or bool(kinds & {'star', 'astar', 'bstar', 'unnest'}) or bool(q.get('except')) or ragged)
    return cl, nontrivial


def check_case(case, stats=None, via=None):
    if via is None:
        via = 'objects' if (len(case['A']) % 3 == 0) else 'table'
    tup = relcheck.run_both(case, via)
    text, exp, exp_err, got, A, B = tup
    if stats is not None:
        cl, nt = classify(case, exp)
        cl.append('via-' + via)
        if exp_err is not None:
            cl.append('ref-says-error')
        stats.case(case, nt, cl, sample={'query': text, 'A': case['A'], 'B': case.get('B'), 'a_names': case.get('a_names'),
                                         'out': got['out'][:6], 'error': got['error']})
    if exp_err is not None and case['q'].get('top'):
        return  # a bounded query may legitimately stop before the offending record
    relcheck.assert_rel(case, {'records', 'fresh'}, via, tup)


def strategy():
    from hypothesis import strategies as st
    plain = qgen.st_case_select(join_p=3, order=False, distinct=False, top=False, where_p=2)
    return st.one_of(plain, plain, plain, plain, qgen.st_case_typed(order=False, distinct=False, top=False))


def shard(shard, nshards, tier, seed, scratch):
    total = 24000 if tier == 'quick' else 240000
    stats = Stats()
    failures = run_hypothesis(strategy(), lambda c: check_case(c, stats), max(1, total // nshards), seed,
                              shrink_budget=300 if tier == 'quick' else 2000)
    failures += _large(shard, stats, 'select')
    return {'stats': stats.export(), 'failures': failures}


def replay(case, clause=None):
    if isinstance(case, dict) and case.get('kind') == 'large':
        f = _large(1, Stats(), case['which'])
        if f:
            raise Violation(f[0]['clause'], f[0]['detail'])
        return
    check_case(case, None, 'table')
    check_case(case, None, 'objects')


def probe_known(k):
    return False


def _large(shard, stats, which):
    """Deterministic large tables (thousands of records) judged by the same reference."""
    from .. import largecases
    out = []
    if shard != 1:
        return out
    for case in largecases.large_cases(which):
        try:
            relcheck.assert_rel(case, {'records'}, 'table')
            stats.bump('large-case')
            stats.evaluations += 1
        except Violation as v:
            d = dict(v.detail or {})
            for k in ('got', 'expected', 'after', 'before'):
                if k in d:
                    d[k] = d[k][:3] if isinstance(d[k], list) else d[k]
            out.append({'clause': 'large-' + v.clause, 'detail': d, 'case': {'kind': 'large', 'which': which}})
            break
    return out
