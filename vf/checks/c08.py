# C08 - Query meaning is invariant under spelling; string literals are opaque.
from __future__ import annotations

import copy
import re

from hypothesis import strategies as st

from ..common import Stats, run_hypothesis, Violation, HarnessError
from .. import engine, qgen, refmodel, respell, jsdriver
from . import c01, c02, c03, c04, c05

PROP = 'C08'
LEVEL = 'exploration'
RULE = ('Metamorphic. (1) A query from the C01-C05 generators is rendered canonically and re-spelled by a random composition of: per-keyword case (upper / lower / title / '
        'random mixed, incl. ON, AND, SET, ASC/DESC, TOP, DISTINCT, COUNT, AS, FROM), permutation of the clauses after SELECT/UPDATE, extra spaces / tabs / line breaks '
        'between tokens, whole comment lines anywhere (first, last, between clauses, containing keywords and quotes), trailing semicolons (; / space; / newline; / ;;), '
        'aN <-> a[N], TOP <-> LIMIT, JOIN <-> INNER JOIN, LEFT <-> LEFT OUTER JOIN, = <-> == and swapped sides in ON, b <-> B, redundant FROM a / UPDATE a SET; '
        'the result (records, header, warnings, or error class) must equal that of the canonical spelling. (2) Literal opacity: a string literal whose content is drawn '
        'from an alphabet of every RBQL keyword with surrounding spaces, *, a.*, =, ==, #, commas, semicolons, brackets, both quote characters, backslashes, aN / a[N] / '
        'NR-like tokens, " as x", "WITH (header)", in single, double and triple quotes, is added as the last select item / a WHERE conjunct / an extra ORDER BY key / an '
        'UPDATE right-hand side: all other columns are unchanged and the new column equals the literal content for every record. A JS leg does the same through rbql-js. '
        'Non-trivial = at least 3 distinct re-spelling kinds applied, or a literal containing a keyword or metacharacter; distinct = case digests.'
        ' Later additions: white space inside multi-word keywords, CRLF line breaks and TAB-indented comment lines, every literal piece (and pairs) verbatim in three positions through both engines, literals ending with a backslash followed by a second literal, a deterministic synonym batch over empty / narrow / full join tables.')
ASSUMPTIONS = ['comments are whole lines only', 'variable tokens are kept intact (a[ 1 ] is not a[1])', 'no raw line break inside a literal',
               'literals containing an a.ident / b.ident token are excluded when a header is present (known finding D8) and counted as excluded_known']


def plan(tier):
    return {'stages': [('shard_respell', 9), ('shard_literals', 5), ('shard_js', 2)], 'timeout_s': 3000}


def base_strategy():
    return st.one_of(c01.strategy(), c02.strategy(), c03.st_case(), c04.strategy(), c05.strategy())


@st.composite
def st_respelled(draw):
    case = draw(base_strategy())
    text, kinds = respell.respell(draw, case)
    return {'case': case, 'text': text, 'kinds': kinds}


def outcome(r):
    if r['error'] is not None:
        return ('error', r['error']['cls'])
    return ('ok', r['out'], r['header'], sorted(r['warnings']))


def check_respelled(rc, stats=None):
    case = rc['case']
    canon = qgen.render(case['q'])
    a = engine.run_table(canon, copy.deepcopy(case['A']), copy.deepcopy(case.get('B')), case.get('a_names'), case.get('b_names'))
    b = engine.run_table(rc['text'], copy.deepcopy(case['A']), copy.deepcopy(case.get('B')), case.get('a_names'), case.get('b_names'))
    if stats is not None:
        stats.case({'t': rc['text'], 'A': case['A']}, len(rc['kinds']) >= 3, ['respell'] + ['kind-' + k for k in rc['kinds']] + (['canonical-fails'] if a['error'] else []),
                   sample={'canonical': canon, 'respelled': rc['text'], 'kinds': rc['kinds']})
    oa, ob = outcome(a), outcome(b)
    same = oa == ob
    if same and oa[0] == 'ok':
        same = refmodel.compare_records(b['out'], a['out']) is None
    if not same:
        raise Violation('respelling-changes-result', {'canonical': canon, 'respelled': rc['text'], 'kinds': rc['kinds'], 'canonical_result': _short(a), 'respelled_result': _short(b),
                                                      'A': case['A'], 'B': case.get('B'), 'a_names': case.get('a_names')})


def _short(r):
    return {'out': repr(r['out'][:6]), 'header': r['header'], 'warnings': r['warnings'], 'error': r['error']}


# ---------------------------------------------------------------------------------------------
# literal opacity

PIECES = [' select ', ' SELECT ', ' where ', ' WHERE 1', ' order by ', ' ORDER BY a1 desc', ' group by ', ' limit 5', ' LIMIT ', ' join ', ' left join b on a1 == b1', ' inner join ',
          ' except ', ' update ', ' set ', ' top 1 ', ' distinct ', ' distinct count ', ' from a ', ' as x', ' AS y,', ' with (header)', ' WITH (noheader)', ' desc', ' ASC', ' on ',
          ' and ', '*', 'a.*', 'b.*', ', *', '=', '==', ' = ', 'a1 = 2', '#', ' # c', ',', ';', ';;', '(', ')', '[', ']', '{', '}', '"', "'", '\\', 'a1', 'a[1]', 'b2', 'NR', 'NF', 'aNR',
          'like(', 'UNNEST(', 'COUNT(*)', 'é', ' ', 'x', 'strict left join', '%', '_', '\\n', '"""', "'''", 'a.zz', 'b.k',
          '$', '$$', '$&', '$1', "$'", '$`', '${x}', '\\1', '\\g<0>', '{}', '{0}', '%s', '%(a)s', '&&', '||', '/*', '*/', '//', '`', '<!--',
          '\t', 'a\tb', '  ', ' \t ', '\x0b', '\x0c', '\xa0', '\u2003', ' a ']
KEYWORDISH = re.compile(r'select|where|order by|group by|limit|join|except|update| set |top|distinct|from| as |with|desc|asc| on | and |[*=#,;()\[\]"\'\\]', re.I)
ATTR_TOKEN = re.compile(r'(?:^|[^_a-zA-Z0-9])[ab]\.[_a-zA-Z]')


def lit_text(content, q):
    qc = q[0]
    out = []
    for ch in content:
        if ch == '\\':
            out.append('\\\\')
        elif ch == qc:
            out.append('\\' + ch)
        else:
            out.append(ch)
    return q + ''.join(out) + q


@st.composite
def st_literal_case(draw):
    case = draw(st.one_of(c01.strategy(), c02.strategy(), c05.strategy(), c04.strategy()))
    content = ''.join(draw(st.lists(st.sampled_from(PIECES), min_size=1, max_size=5)))
    quote = draw(st.sampled_from(["'", '"', "'''", '"""']))
    if len(quote) == 3 and quote[0] in content:
        quote = quote[0]   # the property speaks of "both quote styles"; triple quotes are exercised only without an inner delimiter character
    place = draw(st.sampled_from(['select', 'select', 'where', 'order', 'update']))
    return {'case': case, 'content': content, 'quote': quote, 'place': place}


def check_literal(lc, stats=None):
    case, content = lc['case'], lc['content']
    q = case['q']
    text = lit_text(content, lc['quote'])
    try:
        if eval(text) != content:
            raise HarnessError('literal rendering is wrong: %r' % text)
    except SyntaxError:
        raise HarnessError('literal rendering is not Python: %r' % text)
    if (case.get('a_names') is not None) and ATTR_TOKEN.search(content):
        if stats is not None:
            stats.excluded_known += 1
        return   # D8: attribute-variable scan runs over literals when a header is present
    lit = {'py': text, 'js': None, 'name': None, 'ty': 'str'}
    q2 = copy.deepcopy(q)
    place = lc['place']
    is_agg = q['type'] == 'select' and (q.get('group') is not None or any(it['k'] == 'agg' for it in q['items']))
    if q['type'] == 'update':
        place = 'update'
        q2['assign'] = q2['assign'] + [{'target': q2['assign'][0]['target'], 'idx': q2['assign'][0]['idx'], 'e': lit, 'eq': '='}]
    elif place == 'update' or q.get('except') or is_agg:
        place = 'select' if not q.get('except') else 'where'
    if place == 'order' and q['type'] == 'select' and q.get('top') and q.get('order') is None:
        place = 'where'     # adding an ORDER BY to a TOP-bounded query turns lazy evaluation into a full scan (an error behind the bound would surface): not a spelling change
    if place == 'select' and q['type'] == 'select':
        q2['items'] = q2['items'] + [{'k': 'expr', 'e': lit}]
    elif place == 'where':
        w = q.get('where')
        cond = '%s == %s' % (text, text)
        q2['where'] = qgen.mk(cond if w is None else '(%s) and %s' % (w['py'], cond), None, 'bool')
    elif place == 'order':
        if q.get('order') is None:
            q2['order'] = {'keys': [lit], 'desc': False, 'asc_kw': False}
        else:
            q2['order']['keys'] = q2['order']['keys'] + [lit]
    t1, t2 = qgen.render(q), qgen.render(q2)
    a = engine.run_table(t1, copy.deepcopy(case['A']), copy.deepcopy(case.get('B')), case.get('a_names'), case.get('b_names'))
    b = engine.run_table(t2, copy.deepcopy(case['A']), copy.deepcopy(case.get('B')), case.get('a_names'), case.get('b_names'))
    if stats is not None:
        stats.case({'t': t2, 'A': case['A']}, bool(KEYWORDISH.search(content)), ['literal', 'literal-in-' + place, 'quote-' + {"'": 'single', '"': 'double', "'''": 'triple-single', '"""': 'triple-double'}[lc['quote']]],
                   sample={'query': t2, 'literal_content': content})
    ctx = {'query': t2, 'without_literal': t1, 'literal_content': content, 'with': _short(b), 'without': _short(a), 'A': case['A'], 'a_names': case.get('a_names')}
    if a['error'] is not None:
        if b['error'] is None or b['error']['cls'] != a['error']['cls']:
            raise Violation('literal-changes-error', ctx)
        return
    if b['error'] is not None:
        raise Violation('literal-breaks-query:' + b['error']['cls'], ctx)
    if place == 'select':
        if len(a['out']) != len(b['out']) or any(r2[:-1] != r1 or r2[-1] != content for r1, r2 in zip(a['out'], b['out'])):
            raise Violation('literal-not-verbatim-or-columns-changed', ctx)
    elif place == 'update':
        idx = q['assign'][0]['idx']
        upd_a = a['out']
        if len(upd_a) != len(b['out']):
            raise Violation('literal-update-record-count', ctx)
        for r0, r1, r2 in zip(case['A'], a['out'], b['out']):
            changed = r1 != r0 or True
            exp = list(r1)
            # the extra assignment overrides the first target wherever the record qualified; qualification is visible through any change
            if r2 != r1:
                exp[idx] = content
            if r2 != exp:
                raise Violation('literal-update-value', ctx)
    else:
        if refmodel.compare_records(b['out'], a['out']) is not None or (b['header'] or None) != (a['header'] or None):
            raise Violation('literal-in-%s-changes-result' % place, ctx)


# ---------------------------------------------------------------------------------------------

def shard_respell(shard, nshards, tier, seed, scratch):
    total = 9000 if tier == 'quick' else 150000
    stats = Stats()
    fails = run_hypothesis(st_respelled(), lambda c: check_respelled(c, stats), max(1, total // nshards), seed, shrink_budget=300 if tier == 'quick' else 2000)
    for f in fails:
        f['leg'] = 'respell'
    return {'stats': stats.export(), 'failures': fails}


def det_literal_batch(lang, drv=None):
    """Deterministic part: every piece and every pair of two pieces as a literal in both quote styles, as a select item, inside a
    WHERE comparison and as an UPDATE value; the literal must come out verbatim and must not disturb the rest of the query."""
    skip_js = ('a.zz', 'b.k', '\\n', '\"\"\"', "'''", '`', '${x}')
    pieces = [p for p in PIECES if not (lang == 'js' and p in skip_js)]
    contents = list(pieces) + [p + q for p in pieces[::7] for q in pieces[3::11]]
    A = [['x', 'y'], ['z', 'w']]
    run = (lambda t: engine.run_table(t, copy.deepcopy(A), None, None, None)) if lang == 'py' else (lambda t: drv.query_table(t, copy.deepcopy(A), None, None, None))
    n = 0
    for content in contents:
        for qc in ("'", '"'):
            lit = lit_text(content, qc)
            for text, want in (('select %s, a1' % lit, [[content, 'x'], [content, 'z']]),
                               ('select a2 where %s == %s %s NR == 2' % (lit, lit, 'and' if lang == 'py' else '&&'), [['w']]),
                               ('update a2 = %s where NR == 1' % lit, [['x', content], ['z', 'w']])):
                r = run(text)
                n += 1
                if r['error'] is not None or r['out'] != want:
                    raise Violation(lang + '-literal-not-verbatim', {'query': text, 'literal_content': content, 'got': r['out'], 'error': r['error'], 'expected': want})
    # a literal whose content ends with a backslash, followed by a second literal in the same quote style
    for first in ('C:\\', 'end\\', '\\', 'a\\\\'):
        for content in contents[:len(pieces)]:
            for qc in ("'", '"'):
                text = 'select %s, %s, a1' % (lit_text(first, qc), lit_text(content, qc))
                want = [[first, content, 'x'], [first, content, 'z']]
                r = run(text)
                n += 1
                if r['error'] is not None or r['out'] != want:
                    raise Violation(lang + '-literal-not-verbatim', {'query': text, 'literal_content': [first, content], 'got': r['out'], 'error': r['error'], 'expected': want})
    return n


def det_synonym_batch():
    """Deterministic part of the synonym clause: JOIN = INNER JOIN, LEFT JOIN = LEFT OUTER JOIN (any letter case), TOP = LIMIT, over join tables
    that are empty / narrower than their header / full, with select lists that expose the width of the join side."""
    n = 0
    A = [['apple', '1'], ['pear', '2'], ['fig', '3']]
    for B in ([], [['pear']], [['pear', 'p2', 'p3'], ['fig', 'f2', 'f3']], [['pear', 'p2', 'p3'], ['pear', 'q2', 'q3']]):
        for hdr in (True, False):
            a_names, b_names = (['name', 'n'], ['key', 'x', 'y']) if hdr else (None, None)
            for sel in ('*', 'b.*', 'bNF, a1', 'a1, b2', 'a.*, b.*', 'a1, b3, NR'):
                for tail in ('', ' order by a1', ' where NR > 1'):
                    for pair in (('JOIN', 'INNER JOIN', 'inner join', 'Inner  Join'), ('LEFT JOIN', 'LEFT OUTER JOIN', 'left outer join', 'Left  Outer\tJoin', 'left join')):
                        results = []
                        for kw in pair:
                            r = engine.run_table('select %s %s b on a1 == b1%s' % (sel, kw, tail), copy.deepcopy(A), copy.deepcopy(B), a_names, b_names)
                            results.append((r['out'], r['header'], r['error'] and r['error']['cls']))
                            n += 1
                        if any(x != results[0] for x in results[1:]):
                            bad = next(i for i, x in enumerate(results) if x != results[0])
                            raise Violation('synonym-changes-result', {'select': sel, 'tail': tail, 'join_table': B, 'header': hdr, 'spellings': [pair[0], pair[bad]], 'results': [results[0], results[bad]]})
    return n


def shard_literals(shard, nshards, tier, seed, scratch):
    total = 5000 if tier == 'quick' else 90000
    stats = Stats()
    fails = run_hypothesis(st_literal_case(), lambda c: check_literal(c, stats), max(1, total // nshards), seed, shrink_budget=300 if tier == 'quick' else 2000)
    if shard == 0 and not fails:
        try:
            n = det_literal_batch('py')
            stats.evaluations += n
            stats.bump('deterministic-literal-queries', n)
            n2 = det_synonym_batch()
            stats.evaluations += n2
            stats.bump('deterministic-synonym-queries', n2)
        except Violation as v:
            fails.append({'clause': v.clause, 'detail': v.detail, 'case': {'kind': 'det-literals', 'lang': 'py'}})
    for f in fails:
        f['leg'] = 'literals'
    return {'stats': stats.export(), 'failures': fails}


# JS leg: keyword case / clause order / white space / // comment lines / semicolon / literals through rbql-js

@st.composite
def st_js_case(draw):
    case = draw(st.one_of(qgen.st_case_select(js=True, join_p=3, order=True, distinct=True, top=True, where_p=2), qgen.st_case_update(js=True, join_p=4)))
    q = case['q']
    recase = draw(st.booleans())
    kinds = set()

    regap = draw(st.integers(0, 2)) == 1

    def K(kw):
        words = kw.split(' ')
        if recase:
            kinds.add('keyword-case')
            words = [respell.mixed_case(draw, w) for w in words]
        out = words[0]
        for w in words[1:]:
            gap = ' '
            if regap:
                gap = draw(st.sampled_from([' ', '  ', '\t', ' \t ', '   ', '\n']))
                if gap != ' ':
                    kinds.add('keyword-inner-whitespace')
            out += gap + w
        return out
    content = ''.join(draw(st.lists(st.sampled_from([p for p in PIECES if p not in ('a.zz', 'b.k', '\\n', '"""', "'''", '`', '${x}')]), min_size=1, max_size=4)))
    qc = draw(st.sampled_from(["'", '"']))
    use_lit = q['type'] == 'select' and not q.get('except') and draw(st.booleans())
    q2 = copy.deepcopy(q)
    if use_lit:
        t = lit_text(content, qc)
        q2['items'] = q2['items'] + [{'k': 'expr', 'e': {'py': t, 'js': t, 'name': None, 'ty': 'str'}}]
    q3 = copy.deepcopy(q2)
    if q3.get('top') and draw(st.booleans()):
        q3['top']['form'] = 'LIMIT' if q3['top']['form'] == 'TOP' else 'TOP'
        kinds.add('top<->limit')
    head, clauses = qgen.render_clauses(q3, 'js', K)
    if len(clauses) > 1 and draw(st.booleans()):
        clauses = [clauses[i] for i in draw(st.permutations(list(range(len(clauses)))))]
        kinds.add('clause-order')
    pieces = head + [p for cl in clauses for p in cl]
    text = pieces[0]
    for p in pieces[1:]:
        sep = draw(st.sampled_from([' ', ' ', '  ', '\t', '\n', ' \n ', '\n// comment select where\n', '\n  // x\n', '\r\n', '\n\t// tab-indented comment\n', '\r\n// c\r\n', '\r\n\t']))
        if sep != ' ':
            kinds.add('whitespace/comments')
        text += sep + p
    if draw(st.booleans()):
        text += draw(st.sampled_from([';', ' ;', '\n;', ';\r\n', '\r\n;\r\n', ';\n\t// end\n']))
        kinds.add('semicolon')
    return {'case': case, 'q2': q2, 'text': text, 'kinds': sorted(kinds), 'content': content if use_lit else None}


def check_js(jc, drv, stats=None):
    case = jc['case']
    canon = qgen.render(jc['q2'], 'js')
    a = drv.query_table(canon, copy.deepcopy(case['A']), copy.deepcopy(case.get('B')), case.get('a_names'), case.get('b_names'))
    b = drv.query_table(jc['text'], copy.deepcopy(case['A']), copy.deepcopy(case.get('B')), case.get('a_names'), case.get('b_names'))
    if stats is not None:
        stats.case({'t': jc['text'], 'A': case['A']}, len(jc['kinds']) >= 2 or jc['content'] is not None, ['js-respell'] + ['js-kind-' + k for k in jc['kinds']] + (['js-literal'] if jc['content'] is not None else []),
                   sample={'canonical': canon, 'respelled': jc['text']})
    oa = ('error', a['error']['cls']) if a['error'] else ('ok', a['out'], a['header'], sorted(a['warnings']))
    ob = ('error', b['error']['cls']) if b['error'] else ('ok', b['out'], b['header'], sorted(b['warnings']))
    if oa != ob:
        raise Violation('js-respelling-changes-result', {'canonical': canon, 'respelled': jc['text'], 'canonical_result': a, 'respelled_result': b, 'A': case['A']})
    if jc['content'] is not None and a['error'] is None:
        if any(r[-1] != jc['content'] for r in a['out']):
            raise Violation('js-literal-not-verbatim', {'query': canon, 'literal_content': jc['content'], 'out': a['out'][:4]})


def shard_js(shard, nshards, tier, seed, scratch):
    total = 1500 if tier == 'quick' else 30000
    stats = Stats()
    drv = jsdriver.Driver()
    try:
        fails = run_hypothesis(st_js_case(), lambda c: check_js(c, drv, stats), max(1, total // nshards), seed, shrink_budget=200 if tier == 'quick' else 1500)
        if shard == 0 and not fails:
            try:
                n = det_literal_batch('js', drv)
                stats.evaluations += n
                stats.bump('deterministic-literal-queries-js', n)
            except Violation as v:
                fails.append({'clause': v.clause, 'detail': v.detail, 'case': {'kind': 'det-literals', 'lang': 'js'}})
    finally:
        drv.close()
    for f in fails:
        f['leg'] = 'js'
    return {'stats': stats.export(), 'failures': fails}


def replay(case, clause=None):
    if case.get('kind') == 'det-literals':
        if case['lang'] == 'js':
            drv = jsdriver.Driver()
            try:
                det_literal_batch('js', drv)
            finally:
                drv.close()
        else:
            det_literal_batch('py')
            det_synonym_batch()
        return
    if 'q2' in case:
        drv = jsdriver.Driver()
        try:
            check_js(case, drv)
        finally:
            drv.close()
    elif 'content' in case:
        check_literal(case)
    else:
        check_respelled(case)


def probe_known(k):
    """D8: `select 'a.zz', a1` with a header fails with 'Unable to find column "zz"'."""
    r = engine.run_table("select 'a.zz', a1", [['x', 'y']], None, ['k', 'v'])
    return r['error'] is not None and 'zz' in r['error']['msg']
