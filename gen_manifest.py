#!/usr/bin/env python3
# Regenerates MANIFEST.json from the table below (kept as a script so the file stays valid and uniform).
import json, os

PY = '/venv/bin/python -W ignore -m vf.run'
CHECKS = {}

def add(pid, category, text, note, technique, design_ref):
    CHECKS[pid] = {
        'property_id': pid,
        'quick_cmd': '%s %s --tier quick' % (PY, pid),
        'thorough_cmd': '%s %s --tier thorough' % (PY, pid),
        'evidence_file': 'evidence/%s.json' % pid,
        'replay_cmd_template': '%s %s --replay {path}' % (PY, pid),
        'engine': 'vf',
        'level_claimed': {'category': category, 'text': text, 'design_ref': design_ref},
        'level_note': note,
        'technique': technique,
    }

TRUST = 'Trusted: CPython eval for expression semantics (shared with the oracle by design), Hypothesis, the reference model in vf/refmodel.py and vf/refcsv.py. Bounds as reported in the evidence file.'

add('C01', 'exploration',
    'Random (table, header, join table, SELECT/WHERE query) cases from a grammar over every item kind are executed by rbql.query_table / rbql.query and compared record-for-record (values, types, order, list freshness) with an independent reference interpreter; no proof of absence beyond the explored sizes.',
    TRUST, 'property-based testing (Hypothesis) against a reference interpreter', 'DESIGN.md §2 C01')

add('C02', 'exploration',
    'Random queries combining ORDER BY / DISTINCT / DISTINCT COUNT / TOP / LIMIT over duplicate-heavy tables are compared with the reference interpreter and, independently, with metamorphic relations computed from the engine outputs alone; termination is decided by running bounded streaming queries on endless input iterators under a pull budget equal to the reference bound.',
    TRUST + ' Termination is decided with a bound on pulled records, never with a clock.', 'property-based testing (Hypothesis): reference model + metamorphic relations + pull-bounded unbounded iterators', 'DESIGN.md §2 C02')
add('C03', 'exploration',
    'Random aggregate / GROUP BY queries over homogeneous numeric-string, int (incl. > 2^53) and float columns are compared with an exact (Fraction) reference aggregation; integer data exactly incl. type, float data within the stated tolerance.',
    TRUST, 'property-based testing (Hypothesis) against an exact-arithmetic reference', 'DESIGN.md §2 C03')
add('C04', 'exploration',
    'Random table pairs x join kinds x 1-3 key pairs x downstream shapes are compared with a nested-loop reference expansion followed by the reference semantics of the downstream query.',
    TRUST, 'property-based testing (Hypothesis) against a nested-loop reference join', 'DESIGN.md §2 C04')
add('C05', 'exploration',
    'Random UPDATE queries (all target spellings, swaps / rotations, NU, WHERE, INNER/LEFT JOIN) are compared with a reference UPDATE and with an explicit frame condition (only assigned fields of qualifying records change).',
    TRUST, 'property-based testing (Hypothesis) against a reference UPDATE + frame condition', 'DESIGN.md §2 C05')
add('C07', 'exploration',
    'Random select lists over every item kind x header modes x join x DISTINCT [COUNT]/TOP/GROUP BY, plus EXCEPT and UPDATE, observed through query_table, query_csv (first output line) and query_pandas_dataframe; width predicate and reference naming function on the structured query.',
    TRUST, 'property-based testing (Hypothesis): validity predicate (width) + reference naming rule', 'DESIGN.md §2 C07')

add('C11', 'exploration',
    'Every line up to length 7 (quick) / 9 (thorough) over the class alphabet {quote, delimiter, space, other} (plus the first delimiter character for multi-character delimiters) is split by csv_utils.smart_split (both preserve modes) and by CSVRecordIterator and compared with a hand-written character-level reference splitter; the class abstraction is itself tested by random relabelling; long random Unicode lines for all five policies. Exhaustive only for the enumerated bounded domain.',
    TRUST, 'exhaustive enumeration of a bounded domain + property-based testing (Hypothesis), differential against a reference splitter', 'DESIGN.md §2 C11')
add('C12', 'exploration',
    'Every text of length <= 5 (quick) / <= 7 (thorough) over {a, ", comma, LF, CR, #, space} is delivered through a harness stream in every partition and chunk size, for every policy x comment prefix x header flag; every delivery must equal the whole-string delivery, which must equal an independent reference line-breaker + splitter. Byte-level partitions of multi-byte UTF-8 / latin-1 samples through TextIOWrapper; random long texts with random cuts. Exhaustive only for the enumerated bounded domain.',
    TRUST, 'exhaustive schedule enumeration (all partitions / chunk sizes) + property-based testing, schedule-invariance + reference reader', 'DESIGN.md §2 C12')

add('C10', 'exploration',
    'Every one-/two-field record over {quote, delimiter characters, space, a (+LF for rfc)} up to length 4/5 for 9 delimiters and the quoted policies, plus random tables over the full alphabet of the quantifier x 5 policies x 12 delimiters x 3 line separators x 3 encodings and query_csv file to file: real writer -> real reader must return the table without warnings whenever the independent reference writer/reader pair can represent it, with cross-checks real writer -> reference reader and reference writer -> real reader; lossy simple/whitespace/None output must warn.',
    TRUST, 'exhaustive enumeration of a bounded domain + property-based testing (Hypothesis): round-trip and cross round-trip against a reference dialect', 'DESIGN.md §2 C10')
add('C17', 'exploration',
    'All pattern/text pairs over the 14-symbol alphabet up to |p|<=3,|t|<=2 (quick) / <=3 (thorough) and the reduced alphabets up to length 5 (thorough) are evaluated through `select like(a1,a2)` (query_table, batches that fill the regex cache) and like_to_regex, plus rbql-js for the shorter pairs, and compared with a dynamic-programming LIKE matcher; random longer Unicode pairs by Hypothesis. The full <=5 x <=5 space over the 14-symbol alphabet is sampled, not enumerated.',
    TRUST, 'exhaustive enumeration of a bounded domain + property-based testing, reference matcher (DP)', 'DESIGN.md §2 C17')
add('C18', 'exploration',
    'Differential Python <-> rbql-js on identical cases: exhaustive lines (splitting, both preserve modes), exhaustive short strings (quoting), exhaustive short files x policies x comment prefix x header x encodings (readers, stream and bulk), random tables written by both writers (bytes compared, cross read) and language-neutral select lists incl. hostile column names (headers, parsing-error class).',
    TRUST + ' node v20 on PATH; js/driver.js requires <repo>/rbql-js by absolute path.', 'exhaustive enumeration + property-based testing, differential between the two implementations', 'DESIGN.md §2 C18')
add('C20', 'exploration',
    'Every input of <= 6 bytes (thorough: also 7 for three configurations) over {a, ", comma, LF, CR, #} in every byte partition (separate Buffers from a Readable) x 3 policies x comment prefix x 2 encodings, all partitions of multi-byte UTF-8 samples incl. BOM / invalid / truncated sequences, and 64 KiB-straddling real files through fs.createReadStream and bulk mode: every delivery == single-chunk delivery == reference reader; invalid UTF-8 rejected in every partition.',
    TRUST + ' node v20 on PATH.', 'exhaustive schedule enumeration (all byte partitions) through a node driver, schedule-invariance + reference reader', 'DESIGN.md §2 C20')

add('C19', 'exploration',
    'Random queries from the language-neutral vocabulary rendered to JavaScript (select/where/order/distinct/top/limit/aggregates/joins/update/except/unnest, plus failing queries) are executed by rbql-js through the node driver and compared with the reference interpreter of C01-C05/C07 on the same structured query: result table, header, error class and record number, and caller arrays unchanged.',
    TRUST + ' node v20 on PATH.', 'property-based testing (Hypothesis) of rbql-js against the reference interpreter, through a node batch driver', 'DESIGN.md §2 C19')

add('C14', 'exploration',
    'Poisoned records at every position x every evaluating clause (incl. a WHERE that hides the first poison) must yield RbqlRuntimeError naming the first offending record (and field); a catalogue of 30 text-level mistakes over random tables / keyword spellings must yield a parsing-class error before any write reaches the writer; IO anomalies must yield RbqlIOHandlingError; the warning set of random CSV inputs / queries / output dialects must equal the anomaly set computed by reference predicates.',
    TRUST, 'property-based testing (Hypothesis) + enumeration of poison positions; expected error class/number and exact warning sets from reference predicates', 'DESIGN.md §2 C14')
add('C15', 'fault_enumeration',
    'Every stream-write index (text sink) and every byte capacity (utf-8 / latin-1 raw sinks) at which the pipe breaks x 12 query shapes; every byte position of an invalid byte x 9 chunk sizes (input and join file); /proc/self/fd before/after every success / parsing / runtime / IO-error scenario of query_csv and query_sqlite_to_csv; a user writer refusing at every write index under 16 shapes; the real CLI piped into head -c N.',
    TRUST + ' Fault injection through harness-owned streams / writers; /proc/self/fd as the fd oracle.', 'fault injection at every write index / byte position / refusal index, with prefix, pull-bound, fd-set and writer-protocol oracles', 'DESIGN.md §2 C15')

add('C06', 'exploration',
    'Queries of the C01-C05 generators plus failing ones against every source kind: Python lists (deep snapshot + identity of every output record against every source row), rbql-js arrays (returned by the node driver after the call), pandas dataframes (equals + dtypes + index + columns), a sqlite file (sha256, side files, and every SQL string handed to a recording connection proxy matched against the identifier whitelist, with hostile identifiers from a grammar of SQL metacharacters), CSV input / join files (sha256 + mtime, library and CLI).',
    TRUST + ' node v20, pandas, sqlite3.', 'property-based testing (Hypothesis): before/after invariants over every source kind + SQL-string whitelist with hostile identifiers', 'DESIGN.md §2 C06')
add('C08', 'exploration',
    'Metamorphic: a generated query and a random composition of re-spellings (keyword case, clause order, white space, line breaks, comment lines, semicolons, aN/a[N], TOP/LIMIT, join synonyms, ON spellings, FROM a, UPDATE a SET) must give the same result; a string literal over an alphabet of all keywords and metacharacters added to SELECT / WHERE / ORDER BY / UPDATE leaves everything else unchanged and reaches the output verbatim; a JS leg does the same through rbql-js. One known finding (D8) is excluded by construction and probed on every run.',
    TRUST, 'property-based testing (Hypothesis), metamorphic relations (re-spelling invariance, literal opacity)', 'DESIGN.md §2 C08')
add('C09', 'exploration',
    'Random headers of hostile names (quotes, backslashes, brackets, TAB/LF/CR, non-ASCII, astral) x every column position x quote styles x spellings (a["n"], a[\'n\'], a.n, bare name in direct mode) used as SELECT item / WHERE operand / EXCEPT column / UPDATE target / JOIN key through list, CSV, pandas and sqlite back-ends, judged by position lookup; the WITH (header|noheader) x caller flag matrix through query_csv and the CLI with a join file. One known finding (D16) is excluded by construction and probed on every run.',
    TRUST, 'property-based testing (Hypothesis) with a position-lookup oracle across four back-ends', 'DESIGN.md §2 C09')
add('C13', 'exploration',
    'Random type-agnostic queries (and failing ones) over rectangular string tables through 9 entry points (query_table, query with harness objects, query_csv, the CLI file->file / stdin->stdout / --out-format csv|tsv, pandas, sqlite): identical tables and headers after str() normalisation; CLI exit status, stderr / stdout discipline and the Error [type] mapping.',
    TRUST + ' CLI sub-processes run with PYTHONPATH=<repo>/rbql-py.', 'property-based testing (Hypothesis), differential between front-ends + CLI protocol predicate', 'DESIGN.md §2 C13')
add('C16', 'exploration',
    'Histories: every ordered pair (and, thorough, every ordered triple) of a 44-scenario pool plus rule-based state machines over longer sequences, each step compared with the same scenario run alone in a fresh interpreter. Interleavings: two queries in two threads under a harness-owned cooperative scheduler that switches only at get_record / write / set_header / finish; every interleaving enumerated by re-execution (2-record tables quick; 3-record tables and larger joins thorough).',
    TRUST + ' Only cooperative switch points are explored, not byte-code-level pre-emption.', 'stateful property-based testing (Hypothesis rule-based machines) + exhaustive enumeration of interleavings under a deterministic scheduler', 'DESIGN.md §2 C16')

NOT_APPLICABLE = []
ALL = ['C%02d' % i for i in range(1, 21)]
PENDING_REASON = 'check not built yet in this revision of /verif (planned, see DESIGN.md); not claimed until it exists and is quiet on the unchanged tree'

manifest = {
    'version': 1,
    'setup_cmd': '/venv/bin/python -c "import hypothesis" 2>/dev/null || /venv/bin/pip install --no-index --find-links /opt/veriftools/wheels hypothesis',
    'hooks': {
        'guard': 'RBQL_VERIF',
        'enable': 'no source hooks are needed: every observation point is reachable through public API with harness-supplied iterator / writer / registry / stream objects; checks import /repo/rbql-py and require /repo/rbql-js directly from the working tree',
        'baseline_off_cmd': 'cd /repo && /venv/bin/python -m pytest -ra -q -p no:cacheprovider --timeout=900 --continue-on-collection-errors',
        'source_commits': [],
        'add_only': True,
    },
    'engines': [{'name': 'vf', 'path': 'vf/', 'serves_properties': sorted(CHECKS), 'kind_free_text': 'Python harness: Hypothesis strategies + exhaustive enumerators + reference models; node driver under js/'}],
    'checks': [CHECKS[k] for k in sorted(CHECKS)],
    'notes': 'All checks: cwd=/verif, VERIF_SEED honoured, exit 0/1/2 = held / VIOLATION / harness error. fix: commits in /repo are listed in known_findings.json.',
    'not_applicable': NOT_APPLICABLE + [{'property_id': p, 'reason': PENDING_REASON} for p in ALL if p not in CHECKS and p not in [n['property_id'] for n in NOT_APPLICABLE]],
}
path = os.path.join(os.path.dirname(os.path.abspath(__file__)), 'MANIFEST.json')
with open(path, 'w') as f:
    json.dump(manifest, f, indent=1)
    f.write('\n')
print('wrote', path, len(CHECKS), 'checks')
