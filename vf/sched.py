# Cooperative scheduler: runs two queries in two threads of which exactly one is ever
# runnable; control changes hands only at the points where a query reads a record or
# writes one (get_record / write / set_header / finish of harness objects). A run is a
# pure function of the choice sequence; all interleavings are enumerated by re-execution.
from __future__ import annotations

import threading

from . import engine

from rbql import rbql_engine  # noqa: E402


WATCHDOG_S = 30


class CrossThreadUse(BaseException):
    pass


class Scheduler(object):
    def __init__(self, choices):
        self.owner = [None, None]
        self.cross_thread = False
        self.deadlock = False
        self.choices = list(choices)
        self.taken = []          # choices actually made at branching points
        self.go = [threading.Semaphore(0), threading.Semaphore(0)]
        self.back = threading.Semaphore(0)
        self.done = [False, False]
        self.steps = [0, 0]
        self.both_midflight_switch = False
        self.started = [False, False]

    def yield_point(self, tid):
        if threading.get_ident() != self.owner[tid]:
            # an object of query `tid` is being used from the other query's thread: the queries are not isolated
            self.cross_thread = True
            raise CrossThreadUse('object of query %d used from the thread of the other query' % tid)
        self.steps[tid] += 1
        self.back.release()
        if not self.go[tid].acquire(timeout=WATCHDOG_S):
            raise CrossThreadUse('scheduler watchdog')

    def run(self, bodies):
        results = [None, None]

        def wrap(tid):
            self.owner[tid] = threading.get_ident()
            self.go[tid].acquire()
            self.started[tid] = True
            try:
                results[tid] = bodies[tid](tid)
            except BaseException as e:   # CrossThreadUse, or anything the body did not catch
                results[tid] = {'escaped_exception': repr(e)}
            self.done[tid] = True
            self.back.release()
        threads = [threading.Thread(target=wrap, args=(i,), daemon=True) for i in range(2)]
        for t in threads:
            t.start()
        last = None
        while not all(self.done):
            alive = [i for i in range(2) if not self.done[i]]
            if len(alive) == 2:
                pos = len(self.taken)
                pick = self.choices[pos] if pos < len(self.choices) else 0
                self.taken.append(pick)
            else:
                pick = alive[0]
            if last is not None and pick != last and len(alive) == 2 and all(self.started) and self.steps[0] > 0 and self.steps[1] > 0:
                self.both_midflight_switch = True
            last = pick
            self.go[pick].release()
            if not self.back.acquire(timeout=WATCHDOG_S):
                self.deadlock = True     # a query blocked on an object of the other one: reported as a violation by the caller
                break
        if not self.deadlock:
            for t in threads:
                t.join(5)
        return results


def next_prefix(taken, keep=0):
    """Depth-first successor of a choice sequence (binary choices) that leaves the first
    `keep` choices alone, or None when the sub-tree is exhausted."""
    t = list(taken)
    while len(t) > keep and t[-1] == 1:
        t.pop()
    if len(t) <= keep:
        return None
    t[-1] = 1
    return t


class SchedIterator(rbql_engine.TableIterator):
    def __init__(self, sched, tid, table, column_names=None, variable_prefix='a'):
        rbql_engine.TableIterator.__init__(self, table, column_names, True, variable_prefix)
        self.sched, self.tid = sched, tid

    def get_record(self):
        self.sched.yield_point(self.tid)
        return rbql_engine.TableIterator.get_record(self)


class SchedRegistry(rbql_engine.RBQLTableRegistry):
    def __init__(self, sched, tid, table, names):
        self.sched, self.tid, self.table, self.names = sched, tid, table, names

    def get_iterator_by_table_id(self, table_id, single_char_alias):
        if table_id.lower() != 'b':
            return None
        return SchedIterator(self.sched, self.tid, self.table, self.names, single_char_alias)


class SchedWriter(rbql_engine.RBQLOutputWriter):
    def __init__(self, sched, tid):
        self.sched, self.tid = sched, tid
        self.out, self.header, self.finished = [], None, 0

    def set_header(self, header):
        self.sched.yield_point(self.tid)
        self.header = header

    def write(self, fields):
        self.sched.yield_point(self.tid)
        self.out.append(fields)
        return True

    def finish(self):
        self.sched.yield_point(self.tid)
        self.finished += 1


def make_body(sched, spec):
    """spec: dict(query, A, B, a_names, b_names)."""
    def body(tid):
        # the table objects are shared between the two interleaved queries (and with the run-alone baseline)
        it = SchedIterator(sched, tid, spec['A'], spec.get('a_names'))
        wr = SchedWriter(sched, tid)
        reg = SchedRegistry(sched, tid, spec['B'], spec.get('b_names')) if spec.get('B') is not None else None
        warnings = []
        try:
            engine.rbql.query(spec['query'], it, wr, warnings, reg)
            err = None
        except Exception as e:
            err = engine.err_info(e)
        return {'out': wr.out, 'header': wr.header, 'warnings': warnings, 'error': err, 'finished': wr.finished}
    return body


def run_alone(spec):
    class _Null(object):
        def yield_point(self, tid):
            pass
    return make_body(_Null(), spec)(0)


def explore(spec0, spec1, root=(), limit=None):
    """Enumerates every interleaving below the choice prefix `root`;
    yields (choices_taken, results, both_midflight)."""
    root = list(root)
    prefix = list(root)
    n = 0
    while prefix is not None:
        s = Scheduler(prefix)
        res = s.run([make_body(s, spec0), make_body(s, spec1)])
        if s.deadlock or s.cross_thread:
            res = [{'isolation_broken': 'deadlock' if s.deadlock else 'cross-thread use', 'partial': repr(res)[:300]}, res[1]]
        if len(s.taken) >= len(root) or not any(root[len(s.taken):]):
            yield s.taken, res, s.both_midflight_switch
            n += 1
        if limit is not None and n >= limit:
            return
        if len(s.taken) <= len(root):
            return
        prefix = next_prefix(s.taken, len(root))
