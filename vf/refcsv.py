# Reference CSV dialect: character-at-a-time splitter, writer, line breaker and reader for
# the five policies, written from the dialect description in C10/C11/C12 (no `re`, no
# str.split for the quoted policies; multi-character delimiters via startswith).
from __future__ import annotations

BOM = '\ufeff'


def find_from(s, sub, start):
    """Index of the first occurrence of `sub` in s at or after start, or -1 (hand-rolled)."""
    n, m = len(s), len(sub)
    if m == 0:
        return -1
    i = start
    while i + m <= n:
        if s.startswith(sub, i):
            return i
        i += 1
    return -1


def split_plain(line, dlm):
    out = []
    i = 0
    while True:
        u = find_from(line, dlm, i)
        if u == -1:
            out.append(line[i:])
            return out
        out.append(line[i:u])
        i = u + len(dlm)


def split_quoted(line, dlm, preserve=False):
    """Returns (fields, warning, quoted_flags)."""
    n = len(line)
    allow_ws = dlm != ' '
    fields, flags = [], []
    warning = False
    i = 0
    while True:
        # try a quoted field at i
        j = i
        if allow_ws:
            while j < n and line[j] == ' ':
                j += 1
        taken = False
        if j < n and line[j] == '"':
            k = j + 1
            content = []
            closed = False
            while k < n:
                if line[k] == '"':
                    if k + 1 < n and line[k + 1] == '"':
                        content.append('"')
                        k += 2
                        continue
                    closed = True
                    k += 1
                    break
                content.append(line[k])
                k += 1
            if closed:
                e = k
                if allow_ws:
                    while e < n and line[e] == ' ':
                        e += 1
                if e == n or line.startswith(dlm, e):
                    fields.append(line[i:e] if preserve else ''.join(content))
                    flags.append(True)
                    taken = True
                    end = e
        if not taken:
            u = find_from(line, dlm, i)
            end = n if u == -1 else u
            f = line[i:end]
            if '"' in f:
                warning = True
            fields.append(f)
            flags.append(False)
        if end >= n:
            break
        i = end + len(dlm)
    return fields, warning, flags


def split_whitespace(line, preserve=False):
    out = []
    n = len(line)
    i = 0
    if not preserve:
        while i < n:
            while i < n and line[i] == ' ':
                i += 1
            if i >= n:
                break
            j = i
            while j < n and line[j] != ' ':
                j += 1
            out.append(line[i:j])
            i = j
        return out
    # preserving mode: each field keeps its surrounding spaces, except exactly one separating space
    spans = []
    while i < n:
        s = i
        while i < n and line[i] == ' ':
            i += 1
        if i >= n:
            if spans:
                spans[-1] = (spans[-1][0], n)
            break
        while i < n and line[i] != ' ':
            i += 1
        while i < n and line[i] == ' ':
            i += 1
        spans.append((s, i))
    out = [line[a:b] for a, b in spans]
    for t in range(len(out) - 1):
        out[t] = out[t][:-1]
    return out


def smart_split(line, dlm, policy, preserve=False):
    """(fields, warning)"""
    if policy == 'simple':
        return split_plain(line, dlm), False
    if policy == 'whitespace':
        return split_whitespace(line, preserve), False
    if policy == 'monocolumn':
        return [line], False
    f, w, _ = split_quoted(line, dlm, preserve)
    return f, w


def unquote(field):
    """Inverse of the preserved form of a quoted field; other text is returned unchanged."""
    s = field.strip(' ')
    if len(s) >= 2 and s[0] == '"' and s[-1] == '"':
        inner = s[1:-1]
        out = []
        k = 0
        while k < len(inner):
            if inner[k] == '"':
                if k + 1 < len(inner) and inner[k + 1] == '"':
                    out.append('"')
                    k += 2
                    continue
                return field
            out.append(inner[k])
            k += 1
        return ''.join(out)
    return field


# ---------------------------------------------------------------------------------------------
# writer

def quote_min(f, dlm, rfc):
    if '"' in f:
        return '"' + f.replace('"', '""') + '"'
    if find_from(f, dlm, 0) != -1 or (rfc and ('\n' in f or '\r' in f)):
        return '"' + f + '"'
    return f


def quote_always(f):
    return '"' + f.replace('"', '""') + '"'


def write_table(table, dlm, policy, line_sep='\n', always_quote=False):
    """Reference writer. Returns text, or None if the policy cannot take the record shape."""
    lines = []
    for rec in table:
        if policy == 'simple':
            lines.append(dlm.join(rec))
        elif policy == 'whitespace':
            lines.append(' '.join(rec))
        elif policy == 'monocolumn':
            if len(rec) != 1:
                return None
            lines.append(rec[0])
        elif policy in ('quoted', 'quoted_rfc'):
            if always_quote:
                lines.append(dlm.join(quote_always(f) for f in rec))
            else:
                lines.append(dlm.join(quote_min(f, dlm, policy == 'quoted_rfc') for f in rec))
        else:
            raise ValueError(policy)
    return ''.join(l + line_sep for l in lines)


# ---------------------------------------------------------------------------------------------
# line breaker and reader

def break_lines(text):
    """Physical lines: terminated by LF, CR or CRLF; an unterminated non-empty tail is a line."""
    lines = []
    cur = []
    i, n = 0, len(text)
    while i < n:
        c = text[i]
        if c == '\r':
            lines.append(''.join(cur))
            cur = []
            if i + 1 < n and text[i + 1] == '\n':
                i += 2
            else:
                i += 1
            continue
        if c == '\n':
            lines.append(''.join(cur))
            cur = []
            i += 1
            continue
        cur.append(c)
        i += 1
    if cur:
        lines.append(''.join(cur))
    return lines


def count_quotes(s):
    c = 0
    for ch in s:
        if ch == '"':
            c += 1
    return c


def read_table(text, dlm, policy, comment_prefix=None, strip_bom=False, table_name='input'):
    """Reference reader. Returns dict(records, warnings{bom, defective_line, fields_info}, error)."""
    lines = break_lines(text)
    bom = False
    if strip_bom and lines and lines[0].startswith(BOM):
        lines[0] = lines[0][1:]
        bom = True
    records = []
    defective_line = None
    fields_info = {}
    error = None
    i = 0
    nr = 0
    while i < len(lines):
        line = lines[i]
        nl_first = i + 1
        i += 1
        if comment_prefix and line.startswith(comment_prefix):
            continue
        if policy == 'quoted_rfc' and count_quotes(line) % 2 == 1:
            parts = [line]
            while i < len(lines):
                nxt = lines[i]
                i += 1
                parts.append(nxt)
                if count_quotes(nxt) % 2 == 1:
                    break
            line = '\n'.join(parts)
        nl_last = i
        nr += 1
        fields, warning = smart_split(line, dlm, policy)
        if warning and defective_line is None:
            defective_line = nl_last
            if policy == 'quoted_rfc':
                error = 'Inconsistent double quote escaping in %s table at record %d, line %d' % (table_name, nr, nl_last)
                break
        if len(fields) not in fields_info:
            fields_info[len(fields)] = nr
        records.append(fields)
    return {'records': records, 'bom': bom, 'defective_line': defective_line, 'fields_info': fields_info, 'error': error}


def warnings_text(res, table_name='input'):
    out = []
    if res['bom']:
        out.append('UTF-8 Byte Order Mark (BOM) was found and skipped in %s table' % table_name)
    if res['defective_line'] is not None:
        out.append('Inconsistent double quote escaping in %s table. E.g. at line %d' % (table_name, res['defective_line']))
    if len(res['fields_info']) > 1:
        items = sorted(res['fields_info'].items(), key=lambda kv: kv[1])
        (n1, r1), (n2, r2) = items[0], items[1]
        out.append('Number of fields in "%s" table is not consistent: e.g. record %d -> %d fields, record %d -> %d fields' % (table_name, r1, n1, r2, n2))
    return out


def representable(table, dlm, policy, line_sep='\n', strip_bom=False):
    """A table is representable iff the reference writer/reader pair round-trips it (with the
    stated normalisation of CR / CRLF inside quoted_rfc fields to LF)."""
    if any(any(c is None for c in r) for r in table):
        return False
    text = write_table(table, dlm, policy, line_sep)
    if text is None:
        return False
    res = read_table(text, dlm, policy, None, strip_bom)
    if res['error'] is not None or res['defective_line'] is not None or res['bom']:
        return False
    return res['records'] == normalise_rfc(table, policy)


def normalise_rfc(table, policy):
    if policy != 'quoted_rfc':
        return [list(r) for r in table]
    return [[f.replace('\r\n', '\n').replace('\r', '\n') for f in r] for r in table]
