#!/usr/bin/env python3
"""Re-run every seeded change against the check that is recorded as catching it, at another VERIF_SEED.

  tools/seedsweep.py --seed 2 [--only C03,C19] [--jobs 2]

Uses tools/seedtest.py (scratch copy + VERIF_REPO); does not rewrite last_run.json. Prints one line per seed and a summary
of the seeds whose catch depends on the random seed (candidates for a deterministic / enumerated leg)."""
import argparse, glob, json, os, re, subprocess, sys, tempfile, shutil, time
from concurrent.futures import ThreadPoolExecutor

ROOT = os.path.dirname(os.path.dirname(os.path.abspath(__file__)))
PY = '/venv/bin/python'


def catching_prop(d):
    lr = os.path.join(d, 'last_run.json')
    if os.path.exists(lr):
        for c in json.load(open(lr)).get('checks', []):
            if c.get('status') == 'caught':
                return c['property']
    return json.load(open(os.path.join(d, 'meta.json')))['property']


def run(sid, prop, seed):
    d = os.path.join(ROOT, 'seeded', sid)
    scratch = tempfile.mkdtemp(prefix='vf_sweep_')
    try:
        for sub in ('rbql-py', 'rbql-js', 'test'):
            shutil.copytree(os.path.join('/repo', sub), os.path.join(scratch, sub))
        p = subprocess.run(['patch', '-p1', '--no-backup-if-mismatch', '-i', os.path.join(d, 'patch.diff')], cwd=scratch, capture_output=True, text=True)
        if p.returncode != 0:
            return sid, prop, 'PATCH-FAILS', 0.0, (p.stdout + p.stderr)[-200:]
        env = dict(os.environ, VERIF_REPO=scratch, VERIF_SEED=str(seed))
        t0 = time.time()
        p = subprocess.run([PY, '-W', 'ignore', '-m', 'vf.run', prop, '--tier', 'quick'], cwd=ROOT, env=env, capture_output=True, text=True)
        status = {0: 'MISSED', 1: 'caught', 2: 'HARNESS'}.get(p.returncode, 'rc=%d' % p.returncode)
        if status == 'caught' and 'VIOLATION property=' not in p.stdout:
            status = 'HARNESS'
        viol = [l for l in p.stdout.splitlines() if l.startswith('violation:')]
        return sid, prop, status, time.time() - t0, (viol[0][:160] if viol else p.stdout.strip().splitlines()[-1][:160] if p.stdout.strip() else p.stderr[-200:])
    finally:
        shutil.rmtree(scratch, ignore_errors=True)


def main():
    ap = argparse.ArgumentParser()
    ap.add_argument('--seed', type=int, default=2)
    ap.add_argument('--only', default=None)
    ap.add_argument('--jobs', type=int, default=2)
    a = ap.parse_args()
    sids = sorted(os.path.basename(p) for p in glob.glob(os.path.join(ROOT, 'seeded', 'C*-*')))
    if a.only:
        keep = set(a.only.split(','))
        sids = [s for s in sids if s.split('-')[0] in keep or s in keep]
    # seeds that are no violation on the current tree (neutralised by a later fix commit) are skipped
    sids = [s for s in sids if not ({'neutralised_by_fix', 'not_caught_by_design'} & set(json.load(open(os.path.join(ROOT, 'seeded', s, 'meta.json')))))]
    jobs = [(s, catching_prop(os.path.join(ROOT, 'seeded', s))) for s in sids]
    bad = []
    with ThreadPoolExecutor(a.jobs) as ex:
        for sid, prop, status, wall, info in ex.map(lambda j: run(j[0], j[1], a.seed), jobs):
            print('%-8s %-6s by %s seed=%d %5.1fs %s' % (status, sid, prop, a.seed, wall, info), flush=True)
            if status != 'caught':
                bad.append((sid, prop, status))
    print('%d seeds, %d not caught at seed %d: %s' % (len(jobs), len(bad), a.seed, bad))


if __name__ == '__main__':
    main()
